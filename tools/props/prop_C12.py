"""C12 — malformed or inconsistent input is rejected by an exception, never by a crash."""
import copy, json, os, random, subprocess, sys
from common import *
import build_repo

LEVEL = "proof"
RULE = ("documents: valid generated worlds (all feature kinds) and, derived from them, (a) schema mutants (unknown key, wrong type, missing key, unsupported option value, "
        "root not an object), labelled valid/invalid by an independent JSON-Schema implementation (python jsonschema, draft 4); (b) wrong/missing version; (c) inconsistent-length "
        "mutants from a catalogue of list-valued parameters that are indexed together (plume lists, gaussian lists, composition/fraction lists, grains lists, random-composition "
        "bounds, section segment counts, spreading-velocity tables, point arity, single coordinates, empty segment lists) together with their consistent controls; (d) byte-level "
        "mutants (truncation, flipped/inserted bytes, deep nesting, huge numbers, empty file, missing file); (e) formatting variants (indentation, key order, comments, number spelling). "
        "correspondence: accept / reject-class of the Lean model (schema validator + parser) vs the library for (a)-(c) and the valid worlds. oracle, on the library built with "
        "AddressSanitizer+UBSan: every document must end in `ok` or a std::exception (no crash, no sanitizer report, no hang); (a)-(c) must be rejected; (e) must answer a query set "
        "bit-identically to the original; accepted documents are queried as well. non-trivial = a document that is not one of the unmodified valid worlds.")
TRUSTED_BASE = ["memory safety / initialisation of the C++ binary is explored (ASan+UBSan, valgrind memcheck in the thorough tier), not proved: the theorems say that the model's validation logic "
                "suffices for the model's indexing logic (C12_parse_*_wellformed, C13_*_no_internal) and that the schema validator decides the declarative `Satisfies` relation",
                "rapidjson's parser is not modelled: byte-level mutants are only checked for crash-freedom on the library",
                "python jsonschema (draft 4) as the independent labelling oracle for schema mutants"]
ASSUMPTIONS = ["NaN / Infinity literals (accepted by the library's rapidjson flags) are not used in structured mutants",
               "a hang is a document that keeps one harness process busy for more than 120 s"]

SCHEMA_ORACLE = os.path.join(os.path.dirname(HERE), "schema_oracle.py")
QUERY_PTS = [(0.0, 0.0, 10e3), (50e3, 50e3, 60e3), (10e3, 20e3, 150e3), (100e3, 100e3, 0.0), (0.0, 50e3, 0.0), (50e3, 100e3, 0.0), (30e3, 50e3, 40e3), (-20e3, 250e3, 350e3)]
QPROPS = "1:0:0,2:0:0,2:1:0,3:0:2,4:0:0,5:0:0"


# ---------------------------------------------------------------------------------------------------------------
# mutators

def walk(node, path=()):
    yield path, node
    if isinstance(node, dict):
        for k, v in node.items():
            yield from walk(v, path + (k,))
    elif isinstance(node, list):
        for i, v in enumerate(node):
            yield from walk(v, path + (i,))


def get_at(doc, path):
    for p in path:
        doc = doc[p]
    return doc


def set_at(doc, path, value):
    if not path:
        return value
    parent = get_at(doc, path[:-1])
    parent[path[-1]] = value
    return doc


def del_at(doc, path):
    parent = get_at(doc, path[:-1])
    del parent[path[-1]]
    return doc


def schema_mutant(rng, w):
    d = copy.deepcopy(w)
    nodes = list(walk(d))
    kind = rng.choice(["unknown-key", "unknown-key", "wrong-type", "wrong-type", "missing-key", "missing-key", "bad-option", "bad-option", "root-type",
                       "array-length", "array-length", "array-length"])
    if kind == "array-length":
        # an array one entry too short or too long (or empty); nested arrays preferred: a point with one coordinate, an Euler triple with two angles, a 3x2 matrix,
        # a ridge with one point - the reader indexes these blindly, relying on the schema's minItems / maxItems
        lists = [(p, n) for p, n in nodes if p and isinstance(n, list)]
        nested = [(p, n) for p, n in lists if len(p) >= 2 and isinstance(p[-1], int)]
        if not lists:
            return "array-length", {}
        p, n = rng.choice(nested if nested and rng.random() < 0.75 else lists)
        how = rng.choice(["shorter", "shorter", "longer", "empty"])
        new = list(n[:-1]) if how == "shorter" and n else ([] if how == "empty" else list(n) + [copy.deepcopy(n[-1]) if n else 0])
        d = set_at(d, p, new)
        return "array-length:" + how, d
    if kind == "unknown-key":
        dicts = [p for p, n in nodes if isinstance(n, dict)]
        p = rng.choice(dicts)
        get_at(d, p)[rng.choice(["zz unknown", "Temperature models", "max  depth", "comment"])] = rng.choice([1, "x", [], {}])
    elif kind == "wrong-type":
        leaves = [(p, n) for p, n in nodes if p and not isinstance(n, (dict,))]
        p, n = rng.choice(leaves)
        if isinstance(n, bool):
            new = rng.choice(["true", 1, None])
        elif isinstance(n, (int, float)):
            new = rng.choice(["12", [n] if not isinstance(get_at(d, p[:-1]), list) else {"v": n}, None, True])
        elif isinstance(n, str):
            new = rng.choice([5, [n], None])
        elif isinstance(n, list):
            new = rng.choice([{"a": 1}, "list", 3])
        else:
            new = 0
        d = set_at(d, p, new)
    elif kind == "missing-key":
        keyed = [p for p, n in nodes if p and isinstance(p[-1], str)]
        if not keyed:
            return "missing-key", {}
        pref = [p for p in keyed if p[-1] in ("model", "version", "features", "coordinates", "length", "thickness", "angle", "compositions", "centerline temperatures", "ridge coordinates", "spreading velocity", "dip point")]
        p = rng.choice(pref if pref and rng.random() < 0.8 else keyed)
        d = del_at(d, p)
    elif kind == "bad-option":
        # not "interpolation": the schema has no enum for it, the library checks the string when a feature reads its coordinates (class `other`), and the model does not
        # read the key at all - a mutant there would be a disagreement of the model, not of the library (class audit, DESIGN section 13)
        cands = [p for p, n in nodes if p and p[-1] in ("model", "operation", "depth method", "orientation operation")]
        if not cands:
            d["version"] = "no such version"
        else:
            p = rng.choice(cands)
            d = set_at(d, p, rng.choice(["no such option", "Replace", "uniform ", ""]))
    else:
        d = rng.choice([[d], 5, "world", None, [], True])
    return kind, d


POLY = [[-100e3, -100e3], [200e3, -100e3], [200e3, 200e3], [-100e3, 200e3]]
SEG = {"length": 200e3, "thickness": [100e3], "angle": [45]}


def _cont(**kw):
    f = {"model": "continental plate", "name": "lc", "coordinates": POLY, "max depth": 200e3}
    f.update(kw)
    return f


def _slab(kind="subducting plate", **kw):
    f = {"model": kind, "name": "ls", "coordinates": [[0, 0], [50e3, 100e3], [0, 200e3]], "dip point": [1e5, 0], "segments": [dict(SEG), dict(SEG)],
         "composition models": [{"model": "uniform", "compositions": [0]}]}
    f.update(kw)
    return f


def _plume(**kw):
    f = {"model": "plume", "name": "lp", "coordinates": [[0, 0], [10e3, 0], [20e3, 10e3]], "cross section depths": [100e3, 200e3, 300e3], "semi-major axis": [50e3, 40e3, 30e3],
         "eccentricity": [0, 0.5, 0.25], "rotation angles": [0, 10, 20], "min depth": 50e3, "max depth": 600e3, "composition models": [{"model": "uniform", "compositions": [0]}]}
    f.update(kw)
    return f


def _oce(model="half space model", **kw):
    m = {"model": model, "max depth": 100e3, "top temperature": 273, "bottom temperature": 1600,
         "spreading velocity": [[0, [[0.05, 0.04, 0.03]]], [1, [[0.01, 0.02]]]], "ridge coordinates": [[[0, -1e6], [0, 0], [0, 1e6]], [[1e6, -1e6], [1e6, 1e6]]]}
    m.update(kw)
    return {"model": "oceanic plate", "name": "lo", "coordinates": POLY, "max depth": 100e3, "temperature models": [m]}


def resize(rng, xs, filler):
    """a list of a different length (shorter, possibly empty, or longer)"""
    n = len(xs)
    choices = [k for k in (0, n - 1, n + 1, n + 3) if k >= 0 and k != n]
    k = rng.choice(choices)
    return (list(xs) + [filler] * 4)[:k]


def length_catalogue(rng, tier="quick"):
    """-> list of (site, control feature (consistent), broken feature (inconsistent))"""
    out = []
    E = [[1, 2, 3], [4, 5, 6]]
    M = [[[1, 0, 0], [0, 1, 0], [0, 0, 1]], [[0, 1, 0], [1, 0, 0], [0, 0, 1]]]
    # plume lists
    for key, filler in (("cross section depths", 900e3), ("semi-major axis", 10e3), ("eccentricity", 0.1), ("rotation angles", 5)):
        good = _plume()
        out.append(("plume:" + key, good, dict(good, **{key: resize(rng, good[key], filler)})))
    out.append(("plume:coordinates", _plume(), dict(_plume(), coordinates=resize(rng, _plume()["coordinates"], [30e3, 30e3]) or [[0, 0]])))
    g = {"model": "gaussian", "depths": [0, 100e3], "centerline temperatures": [1700, 1600], "gaussian sigmas": [0.5, 0.25]}
    for key, filler in (("depths", 500e3), ("centerline temperatures", 1500), ("gaussian sigmas", 0.125)):
        out.append(("gaussian:" + key, _plume(**{"temperature models": [g]}), _plume(**{"temperature models": [dict(g, **{key: resize(rng, g[key], filler)})]})))
    out.append(("gaussian:all-empty", _plume(**{"temperature models": [g]}), _plume(**{"temperature models": [{"model": "gaussian", "centerline temperatures": [], "depths": [], "gaussian sigmas": []}]})))
    # composition / fractions
    cu = {"model": "uniform", "compositions": [0, 1, 3], "fractions": [1, 0.5, 0.25]}
    for host, mk in (("continental", lambda m: _cont(**{"composition models": [m]})), ("plume", lambda m: _plume(**{"composition models": [m]})),
                     ("slab", lambda m: _slab(**{"composition models": [m]})), ("fault", lambda m: _slab("fault", **{"composition models": [m]})),
                     ("segment", lambda m: _slab(segments=[dict(SEG, **{"composition models": [m]}), dict(SEG)]))):
        key = rng.choice(["compositions", "fractions"])
        out.append(("uniform-composition@%s:%s" % (host, key), mk(cu), mk(dict(cu, **{key: resize(rng, cu[key], 2)}))))
    sm = {"model": "smooth", "compositions": [0, 1], "top fractions": [1, 0.5], "bottom fractions": [0, 0.25]}
    key = rng.choice(["compositions", "top fractions", "bottom fractions"])
    out.append(("smooth-composition@slab:" + key, _slab(**{"composition models": [sm]}), _slab(**{"composition models": [dict(sm, **{key: resize(rng, sm[key], 1) or [0]})]})))
    out.append(("smooth-composition@slab:defaults", _slab(**{"composition models": [sm]}), _slab(**{"composition models": [{"model": "smooth", "compositions": [0, 1]}]})))
    fm = {"model": "smooth", "compositions": [0, 1], "center fractions": [1, 0.5], "side fractions": [0, 0.25]}
    key = rng.choice(["compositions", "center fractions", "side fractions"])
    out.append(("smooth-composition@fault:" + key, _slab("fault", **{"composition models": [fm]}), _slab("fault", **{"composition models": [dict(fm, **{key: resize(rng, fm[key], 1) or [0]})]})))
    out.append(("smooth-composition@fault:defaults", _slab("fault", **{"composition models": [fm]}), _slab("fault", **{"composition models": [{"model": "smooth", "compositions": [0, 1]}]})))
    rc = {"model": "random", "compositions": [0, 1], "min value": [0, 0.5], "max value": [0.25, 1]}
    key = rng.choice(["compositions", "min value", "max value"])
    out.append(("random-composition:" + key, _cont(**{"composition models": [rc]}), _cont(**{"composition models": [dict(rc, **{key: resize(rng, rc[key], 0.5)})]})))
    # grains
    gu = {"model": "uniform", "compositions": [0, 1], "Euler angles z-x-z": E, "grain sizes": [0.5, -1]}
    key = rng.choice(["compositions", "Euler angles z-x-z", "grain sizes"])
    fill = {"compositions": 2, "Euler angles z-x-z": [7, 8, 9], "grain sizes": 0.25}[key]
    for host, mk in (("continental", lambda m: _cont(**{"grains models": [m]})), ("slab", lambda m: _slab(**{"grains models": [m]})), ("plume", lambda m: _plume(**{"grains models": [m]}))):
        out.append(("uniform-grains@%s:%s" % (host, key), mk(gu), mk(dict(gu, **{key: resize(rng, gu[key], fill)}))))
    gm = {"model": "uniform", "compositions": [0, 1], "rotation matrices": M, "grain sizes": [0.5, 0.5]}
    out.append(("uniform-grains:rotation matrices", _cont(**{"grains models": [gm]}), _cont(**{"grains models": [dict(gm, **{"rotation matrices": resize(rng, M, M[0])})]})))
    gr = {"model": "random uniform distribution", "compositions": [0, 1], "grain sizes": [0.5, -1], "normalize grain sizes": [True, False]}
    key = rng.choice(["compositions", "grain sizes", "normalize grain sizes"])
    out.append(("random-grains:" + key, _cont(**{"grains models": [gr]}), _cont(**{"grains models": [dict(gr, **{key: resize(rng, gr[key], {"compositions": 2, "grain sizes": 0.25, "normalize grain sizes": True}[key])})]})))
    gd = {"model": "random uniform distribution deflected", "compositions": [0, 1], "grain sizes": [0.5, -1], "normalize grain sizes": [True, False], "deflections": [0.5, 1], "basis Euler angles z-x-z": E}
    key = rng.choice(["deflections", "basis Euler angles z-x-z", "grain sizes"])
    out.append(("deflected-grains:" + key, _cont(**{"grains models": [gd]}), _cont(**{"grains models": [dict(gd, **{key: resize(rng, gd[key], {"deflections": 0.25, "basis Euler angles z-x-z": [1, 1, 1], "grain sizes": 0.25}[key])})]})))
    # sections
    out.append(("section:segment-count", _slab(sections=[{"coordinate": 1, "segments": [dict(SEG), dict(SEG, length=100e3)]}]),
                _slab(sections=[{"coordinate": rng.choice([0, 1, 2]), "segments": resize(rng, [dict(SEG), dict(SEG)], dict(SEG)) or [dict(SEG)]}])))
    # the first index past the end (= number of coordinates), one more, and a huge one; slab and fault are separate copies of the guard
    for kind in ("subducting plate", "fault"):
        for bad_c in (3, 4, rng.choice([7, 1000000, 4294967295])):
            out.append(("section:coordinate-out-of-range@%s:%d" % (kind, min(bad_c, 5)), _slab(kind, sections=[{"coordinate": 2, "segments": [dict(SEG), dict(SEG)]}]),
                        _slab(kind, sections=[{"coordinate": bad_c, "segments": [dict(SEG), dict(SEG)]}])))
    out.append(("line:no-segments", _slab(rng.choice(["subducting plate", "fault"])), _slab(rng.choice(["subducting plate", "fault"]), segments=[])))
    out.append(("line:single-coordinate", _slab(rng.choice(["subducting plate", "fault"])), _slab(rng.choice(["subducting plate", "fault"]), coordinates=[[0, 0]])))
    # ridge tables
    for model in ("half space model", "plate model"):
        sv = rng.choice([[[0, [[0.05, 0.04]]], [1, [[0.01, 0.02]]]], [[0, [[0.05, 0.04, 0.03]]]], [], [[0, [[0.05, 0.04, 0.03, 0.02, 0.01, 0.005, 0.001]]]], [[0, [[0.05, 0.04, 0.03]]], [1, [[0.01]]]]])
        out.append(("ridge-table@%s" % model, _oce(model), _oce(model, **{"spreading velocity": sv})))
    # unsupported option values that the schema cannot express (free strings)
    tw = {"model": "tian water content", "compositions": [0], "lithology": rng.choice(["peridotite", "gabbro", "MORB", "sediment"]), "max depth": 100e3}
    ocean = lambda m: {"model": "oceanic plate", "name": "lo", "coordinates": POLY, "max depth": 100e3, "temperature models": [{"model": "uniform", "temperature": 800}], "composition models": [m]}
    out.append(("option:lithology@oceanic", ocean(tw), ocean(dict(tw, lithology=rng.choice(["basalt", "morb", "Peridotite", ""])))))
    tws = {"model": "tian water content", "compositions": [0], "lithology": "sediment", "max distance slab top": 100e3}
    out.append(("option:lithology@slab", _slab(**{"composition models": [tws], "temperature models": [{"model": "uniform", "temperature": 700}]}),
                _slab(**{"composition models": [dict(tws, lithology=rng.choice(["basalt", "gabro"]))], "temperature models": [{"model": "uniform", "temperature": 700}]})))
    mc = {"model": "mass conserving", "density": 3300, "thermal conductivity": 3.3, "adiabatic heating": True, "spreading velocity": [[0, [[0.03, 0.03]]], [0, [[0.03, 0.03]]]],
          "subducting velocity": [[0.03, 0.03], [0.03, 0.03]], "ridge coordinates": [[[-400e3, -100e3], [-400e3, 300e3]], [[-500e3, 300e3], [-500e3, 600e3]]],
          "coupling depth": 80e3, "forearc cooling factor": 20, "taper distance": 100e3, "min distance slab top": -200e3, "max distance slab top": 300e3}
    out.append(("option:reference model name", _slab(**{"temperature models": [dict(mc, **{"reference model name": "half space model"})]}),
                _slab(**{"temperature models": [dict(mc, **{"reference model name": rng.choice(["plate", "half-space model", ""])})]})))
    out.append(("mass-conserving:migration-times", _slab(**{"temperature models": [mc]}),
                _slab(**{"temperature models": [dict(mc, **{"spreading velocity": rng.choice([0.03, [[0, [[0.03, 0.03, 0.03, 0.03]]]]])})]})))
    # ---- systematic: every host (six feature kinds, feature level and segment level for slabs and faults) x every grains / composition model x every parallel list
    # (each feature kind has its own textual copy of these checks).  A random sample of them per run in the quick tier, all of them in the thorough tier.
    def _area(kind):
        return lambda key, m: {"model": kind, "name": "h", "coordinates": POLY, "max depth": 200e3, key: [m]}
    hosts = [("continental plate", _area("continental plate")), ("oceanic plate", _area("oceanic plate")), ("mantle layer", _area("mantle layer")),
             ("plume", lambda key, m: _plume(**{key: [m]})),
             ("slab", lambda key, m: _slab(**{key: [m]})), ("fault", lambda key, m: _slab("fault", **{key: [m]})),
             ("slab-segment", lambda key, m: _slab(segments=[dict(SEG, **{key: [m]}), dict(SEG)])),
             ("fault-segment", lambda key, m: _slab("fault", segments=[dict(SEG), dict(SEG, **{key: [m]})]))]
    fills = {"compositions": 2, "fractions": 0.5, "grain sizes": 0.25, "normalize grain sizes": True, "deflections": 0.25, "Euler angles z-x-z": [7, 8, 9], "rotation matrices": M[0],
             "basis Euler angles z-x-z": [1, 1, 1], "basis rotation matrices": M[1]}
    gmodels = [("uniform/euler", {"model": "uniform", "compositions": [0, 1], "Euler angles z-x-z": E, "grain sizes": [0.5, -1]}),
               ("uniform/matrices", {"model": "uniform", "compositions": [0, 1], "rotation matrices": M, "grain sizes": [0.5, 0.25]}),
               ("random", {"model": "random uniform distribution", "compositions": [0, 1], "grain sizes": [0.5, -1], "normalize grain sizes": [True, False]}),
               ("deflected/euler", {"model": "random uniform distribution deflected", "compositions": [0, 1], "grain sizes": [0.5, -1], "normalize grain sizes": [True, False], "deflections": [0.5, 1],
                                    "basis Euler angles z-x-z": E}),
               ("deflected/matrices", {"model": "random uniform distribution deflected", "compositions": [0, 1], "grain sizes": [0.5, -1], "normalize grain sizes": [True, False], "deflections": [0.5, 1],
                                       "basis rotation matrices": M})]
    sysout = []
    for hn, mk in hosts:
        for mn, gmod in gmodels:
            if hn == "plume" and mn == "random":
                continue                    # the plume has no plain random grains model
            for key in [k for k in gmod if k in fills]:
                sysout.append(("sys:grains:%s@%s:%s" % (mn, hn, key), mk("grains models", gmod), mk("grains models", dict(gmod, **{key: resize(rng, gmod[key], fills[key])}))))
            # orientation given twice / not at all
            both = dict(gmod); neither = dict(gmod)
            if mn.startswith("uniform"):
                both.update({"Euler angles z-x-z": E, "rotation matrices": M}); neither.pop("Euler angles z-x-z", None); neither.pop("rotation matrices", None)
            elif mn.startswith("deflected"):
                both.update({"basis Euler angles z-x-z": E, "basis rotation matrices": M}); neither.pop("basis Euler angles z-x-z", None); neither.pop("basis rotation matrices", None)
            else:
                continue
            sysout.append(("sys:grains:%s@%s:both-orientations" % (mn, hn), mk("grains models", gmod), mk("grains models", both)))
            sysout.append(("sys:grains:%s@%s:no-orientation" % (mn, hn), mk("grains models", gmod), mk("grains models", neither)))
        for key in ("compositions", "fractions"):
            sysout.append(("sys:composition:uniform@%s:%s" % (hn, key), mk("composition models", cu), mk("composition models", dict(cu, **{key: resize(rng, cu[key], fills[key])}))))
    rng.shuffle(sysout)
    out += sysout if tier == "thorough" else sysout[:60]
    # guards found untriggered by the assertion-site census (the harness's error text names file and line of every thrown assertion): the fault's copy of the section
    # segment count, the plume's depth order, the mass conserving tables
    out.append(("section:segment-count@fault", _slab("fault", sections=[{"coordinate": 1, "segments": [dict(SEG), dict(SEG, length=100e3)]}]),
                _slab("fault", sections=[{"coordinate": rng.choice([0, 1, 2]), "segments": resize(rng, [dict(SEG), dict(SEG)], dict(SEG)) or [dict(SEG)]}])))
    out.append(("plume:depths-not-ascending", _plume(), dict(_plume(), **{"cross section depths": rng.choice([[100e3, 300e3, 200e3], [200e3, 200e3, 300e3], [300e3, 200e3, 100e3]])})))
    mc1 = dict(mc, **{"spreading velocity": [[0, [[0.03, 0.03], [0.03, 0.03]]]], "subducting velocity": 0.03})
    out.append(("mass-conserving:velocity-table-rows", _slab(**{"temperature models": [mc1]}),
                _slab(**{"temperature models": [dict(mc1, **{"spreading velocity": [[0, [[0.03, 0.03], [0.03, 0.03], [0.03, 0.03]]]]})]})))
    out.append(("mass-conserving:subducting-rows", _slab(**{"temperature models": [mc]}),
                _slab(**{"temperature models": [dict(mc, **{"subducting velocity": rng.choice([[[0.03, 0.03]], [[0.03, 0.03], [0.03, 0.03, 0.03]], [[0.03, 0.03], [0.03]]])})]})))
    out.append(("mass-conserving:subducting-differs-from-spreading", _slab(**{"temperature models": [mc]}),
                _slab(**{"temperature models": [dict(mc, **{"subducting velocity": [[0.03, 0.03], [0.03, 0.06]]})]})))
    # arity
    out.append(("value-at-points:point-arity", _cont(**{"max depth": [[100e3, [[0, 0]]], [150e3, [[50e3, 50e3]]]]}), _cont(**{"max depth": [[100e3, [[0, 0]]], [150e3, [rng.choice([[50e3], []])]]]})))
    return out


def embed(rng, base, feature):
    d = copy.deepcopy(base)
    d["features"] = list(d.get("features", []))
    d["features"].insert(rng.randint(0, len(d["features"])), copy.deepcopy(feature))
    return d


def byte_mutants(rng, text):
    out = []
    b = text.encode()
    n = len(b)
    out.append(("truncate", b[:rng.randint(0, max(0, n - 1))]))
    bb = bytearray(b)
    for _ in range(rng.choice([1, 3, 10])):
        if bb:
            bb[rng.randrange(len(bb))] = rng.choice([0, 0x22, 0x5b, 0x7b, 0x7d, 0x2c, 0xff, 0x5c, 0x2f, 0x2a, 0x30])
    out.append(("flip", bytes(bb)))
    k = rng.randint(0, n)
    junk = rng.choice([b"\x00", b"/*", b"//", b"\xef\xbb\xbf", b"[[[[", b"}}", b"\"\\u00", b"NaN", b"-Infinity", b"1e999", b"-", b"\\", b",,"])
    out.append(("insert", b[:k] + junk + b[k:]))
    depth = rng.choice([100, 1000, 1001, 5000, 100000])
    out.append(("deep-nesting", rng.choice([b"[" * depth, b"[" * depth + b"]" * depth, b'{"version":"1.1","features":' + b"[" * depth + b"]" * depth + b"}", (b'{"a":' * depth) + b"1" + b"}" * depth])))
    # the same with a string first whose content ends in an escaped backslash, holds an escaped quote, or holds brackets: a scanner that mistakes where the
    # string ends does not see the nesting that follows (or counts brackets that are text)
    decoy = rng.choice([b'"a\\\\"', b'"a\\""', b'"a\\\\\\""', b'"[[[[{{{{"', b'"\\\\[\\"]"'])
    out.append(("deep-nesting-after-string", rng.choice([b"[" + decoy + b"," + b"[" * depth + b"]" * depth + b"]",
                                                         b'{"version":"1.1","k":' + decoy + b',"features":' + b"[" * depth + b"]" * depth + b"}",
                                                         b'{' + decoy + b':' + (b'{"a":' * depth) + b"1" + b"}" * depth + b"}"])))
    out.append(("huge-number", text.replace("1.1", "1.1", 1).replace(":", ":1e999999,\"x\":", 1).encode() if rng.random() < 0.5 else (b'{"version":"1.1","features":[],"potential mantle temperature":' + b"9" * rng.choice([400, 5000]) + b"}")))
    out.append(("special", rng.choice([b"", b" ", b"null", b"{}", b"[]", b'{"version":"1.1"}', b'{"features":[]}', b"\xff\xfe", b'{"version":"1.1","features":[],"version":"1.1"}',
                                       b'{"version":"1.1","features":[{"model":"plume","name":NaN}]}', b'{"version":"1.1","features":[],"surface temperature":NaN}'])))
    return out


def format_variants(rng, w):
    def shuffle(node):
        if isinstance(node, dict):
            ks = list(node.keys())
            rng.shuffle(ks)
            return {k: shuffle(node[k]) for k in ks}
        if isinstance(node, list):
            return [shuffle(v) for v in node]
        return node
    out = []
    out.append(("indent", json.dumps(w, indent=rng.choice([1, 4, "\t"]))))
    out.append(("key-order", json.dumps(shuffle(w))))
    t = json.dumps(shuffle(w), indent=2)
    lines = t.split("\n")
    for _ in range(min(5, len(lines))):
        k = rng.randrange(len(lines))
        lines[k] = lines[k] + rng.choice(["  // a comment", " /* block */", "   ", "\t"])
    out.append(("comments", "// leading comment\n" + "\n".join(lines) + "\n/* trailing */\n"))
    out.append(("compact", json.dumps(w, separators=(",", ":"))))
    # free-text strings (feature names) holding thousands of brackets, quotes and backslashes: text, not nesting
    w2 = copy.deepcopy(w)
    for f in w2.get("features", []):
        if isinstance(f, dict):
            f["name"] = rng.choice(["[" * 3000, "{[" * 1500 + "\\", "a\\", "q\"" + "[" * 2000, "\\\"" + "{" * 1200 + "\\"])
    out.append(("bracket-strings", json.dumps(w2)))
    return out


# ---------------------------------------------------------------------------------------------------------------
# running documents with crash isolation

def run_groups(groups, variant, timeout=120):
    """groups: list of lists of command lines (independent of each other).  -> list of (outputs | None, status) with status in ok/crash/hang and the stderr tail"""
    h = build_repo.compile_harness(os.path.join(proto.VERIF, "harness", "wbharness.cc"), variant)
    env = dict(os.environ, ASAN_OPTIONS="detect_leaks=0:abort_on_error=0", UBSAN_OPTIONS="print_stacktrace=1")
    res = [None] * len(groups)
    start = 0
    while start < len(groups):
        lines = [l for g in groups[start:] for l in g]
        try:
            p = subprocess.run([h], input="\n".join(lines) + "\n", stdout=subprocess.PIPE, stderr=subprocess.PIPE, text=True, timeout=timeout + 2 * len(lines), env=env, errors="replace")
            out = p.stdout.split("\n")
            if out and out[-1] == "":
                out = out[:-1]
            rc, err, hung = p.returncode, p.stderr, False
        except subprocess.TimeoutExpired as e:
            so = e.stdout.decode(errors="replace") if isinstance(e.stdout, bytes) else (e.stdout or "")
            out = so.split("\n")
            out = out[:-1] if out and not so.endswith("\n") else [o for o in out if o != ""]
            rc, err, hung = -999, "", True
        k = 0
        gi = start
        died = False
        while gi < len(groups):
            g = groups[gi]
            if k + len(g) <= len(out):
                res[gi] = (out[k:k + len(g)], "ok", "")
                k += len(g)
                gi += 1
            else:
                died = True
                break
        if not died and rc == 0:
            break
        if gi >= len(groups):
            # all answered but the process reported an error at exit
            if rc != 0:
                res[len(groups) - 1] = (res[len(groups) - 1][0], "crash", err[-1500:])
            break
        res[gi] = (out[k:], "hang" if hung else "crash", err[-1500:])
        start = gi + 1
    return res


def published_schema():
    """the schema the repository publishes (doc/world_builder_declarations.schema.json, regenerated and compared by the repository's own tests); the independent verdicts
    are taken against THIS file, so that a change which weakens the schema the library enforces is not mirrored by the oracle"""
    p = os.path.join(build_repo.REPO, "doc", "world_builder_declarations.schema.json")
    return p if os.path.exists(p) else None


def schema_drift():
    """paths at which the schema dumped by the library under test differs from the published one"""
    pub = published_schema()
    if not pub:
        return []
    a, b = json.load(open(proto.schema()[0])), json.load(open(pub))
    out = []
    def cmp(x, y, path):
        if len(out) >= 8:
            return
        if type(x) != type(y):
            out.append((path, x if not isinstance(x, (dict, list)) else type(x).__name__, y if not isinstance(y, (dict, list)) else type(y).__name__)); return
        if isinstance(x, dict):
            for k in sorted(set(x) | set(y)):
                if k not in x or k not in y:
                    out.append((path + "/" + k, "absent" if k not in x else "present", "absent" if k not in y else "present"))
                else:
                    cmp(x[k], y[k], path + "/" + k)
        elif isinstance(x, list):
            if len(x) != len(y):
                out.append((path, "length %d" % len(x), "length %d" % len(y))); return
            for i, (u, v) in enumerate(zip(x, y)):
                cmp(u, v, path + "/%d" % i)
        elif x != y:
            out.append((path, x, y))
    cmp(a, b, "#")
    return out


def label_schema(paths):
    """independent schema verdicts via python jsonschema (tooling venv)"""
    lst = os.path.join(proto.workdir("C12"), "oracle.lst")
    open(lst, "w").write("\n".join(paths) + "\n")
    r = subprocess.run(["python3-vt", SCHEMA_ORACLE, published_schema() or proto.schema()[0], lst], stdout=subprocess.PIPE, stderr=subprocess.PIPE, text=True)
    out = r.stdout.strip().split("\n") if r.stdout.strip() else []
    if r.returncode != 0 or len(out) != len(paths):
        raise RuntimeError("schema oracle failed: %s" % r.stderr[-500:])
    return out


def qlines(wid, pts=QUERY_PTS):
    return [q3(wid, [x, y, 1000e3 - d], d, [(1, 0, 0), (2, 0, 0), (2, 1, 0), (3, 0, 2), (4, 0, 0), (5, 0, 0)]) for (x, y, d) in pts]


def build_documents(seed, tier, wdir):
    """-> list of dicts {cat, kind, path, doc|None, expect}"""
    rng = random.Random(seed * 7919 + 12)
    docs = []
    nvalid = budget(tier, 14, 120)
    worlds = gen_worlds(rng, wdir, "v", nvalid, {"with_random": True, "with_lines": True})
    cart_worlds = gen_worlds(rng, wdir, "c", budget(tier, 6, 30), {"with_random": False, "with_lines": True, "spherical": False, "max_features": 2})

    def add(cat, kind, name, content, doc=None, expect=None, base=None):
        path = os.path.join(wdir, name)
        if isinstance(content, bytes):
            open(path, "wb").write(content)
        else:
            open(path, "w").write(content)
        docs.append({"cat": cat, "kind": kind, "path": path, "doc": doc, "expect": expect, "base": base})

    for i, (path, w, g) in enumerate(worlds):
        docs.append({"cat": "valid", "kind": "generated", "path": path, "doc": w, "expect": None, "base": None})
        for j in range(budget(tier, 3, 5)):
            kind, d = schema_mutant(rng, w)
            add("schema", kind, "s_%d_%d.wb" % (i, j), json.dumps(d), d)
        v = copy.deepcopy(w)
        ver = rng.choice(["1.0", "0.6", "2.1", "1.10", "", "1.1.0"])
        if rng.random() < 0.2:
            del v["version"]
            add("version", "missing", "ver_%d.wb" % i, json.dumps(v), v, "reject")
        else:
            v["version"] = ver
            add("version", ver or "empty", "ver_%d.wb" % i, json.dumps(v), v, "reject")
        text = json.dumps(w)
        for j, (kind, b) in enumerate(byte_mutants(rng, text)):
            if i < budget(tier, 8, 120):
                add("bytes", kind, "b_%d_%d.wb" % (i, j), b)
        for j, (kind, t) in enumerate(format_variants(rng, w)):
            add("format", kind, "f_%d_%d.wb" % (i, j), t, None, "same", path)
    cat = length_catalogue(rng, tier)
    for i, (site, good, bad) in enumerate(cat):
        base = rng.choice(cart_worlds)[1] if rng.random() < 0.7 else {"version": "1.1", "features": []}
        add("length-control", site, "lc_%d.wb" % i, json.dumps(embed(rng, base, good)), embed(rng, base, good), "accept")
        db = embed(rng, base, bad)
        add("length", site, "lb_%d.wb" % i, json.dumps(db), db, "reject")
    docs.append({"cat": "bytes", "kind": "missing-file", "path": os.path.join(wdir, "does_not_exist.wb"), "doc": None, "expect": None, "base": None})
    os.makedirs(os.path.join(wdir, "a_directory.wb"), exist_ok=True)
    docs.append({"cat": "bytes", "kind": "directory", "path": os.path.join(wdir, "a_directory.wb"), "doc": None, "expect": None, "base": None})
    return docs


def groups_for(docs):
    groups = []
    for k, d in enumerate(docs):
        wid = "d%d" % k
        seed = "7" if d["cat"] in ("valid", "format") else "-"
        g = ["world %s %s %s" % (wid, d["path"], seed)] + qlines(wid) + ["free %s" % wid]
        groups.append(g)
    return groups


def oracle(seed, tier):
    wdir = proto.workdir("C12")
    docs = build_documents(seed, tier, wdir)
    labels = label_schema([d["path"] for d in docs if d["cat"] == "schema"])
    it = iter(labels)
    for d in docs:
        if d["cat"] == "schema":
            d["label"] = next(it)
            d["expect"] = "reject" if d["label"].startswith("invalid") else None
    res = run_groups(groups_for(docs), "asan")
    by_path = {}
    viol, samples = [], []
    stats = {}
    drift = schema_drift()
    if drift:
        viol.append({"what": "the schema the library enforces differs from the published schema (doc/world_builder_declarations.schema.json) at %d place(s), first: %s" % (
            len(drift), "; ".join("%s: library %r, published %r" % d for d in drift[:3])), "probe": None, "drift": [list(map(str, d)) for d in drift]})
    for d, r in zip(docs, res):
        outs, status, err = r if r else ([], "crash", "not run")
        first = outs[0] if outs else ""
        accepted = first == "ok"
        cls = "ok" if accepted else (first.split()[1] if first.startswith("err ") and len(first.split()) > 1 else "?")
        key = "%s:%s" % (d["cat"], "crash" if status != "ok" else cls)
        stats[key] = stats.get(key, 0) + 1
        by_path[d["path"]] = outs
        info = {"category": d["cat"], "kind": d["kind"], "document": d["path"], "answer": first[:300]}
        if d["doc"] is not None and len(json.dumps(d["doc"])) < 6000:
            info["world_json"] = d["doc"]
        if status != "ok":
            stage = "constructing the world" if not outs else "query %d after construction" % len(outs)
            viol.append(dict(info, what="%s under AddressSanitizer/UBSan while %s (%s document, %s): %s" % ("hang" if status == "hang" else "crash / sanitizer report", stage, d["cat"], d["kind"], err[-600:].replace("\n", " | ")),
                             probe="crash:%s:%s" % (d["cat"], d["kind"])))
            continue
        if first.startswith("err nonstd"):
            viol.append(dict(info, what="a non-standard exception escaped World::World (%s, %s)" % (d["cat"], d["kind"]), probe="nonstd-exception"))
        bad_q = [o for o in outs[1:-1] if o.startswith("err nonstd")]
        if bad_q:
            viol.append(dict(info, what="a non-standard exception escaped a query", probe="nonstd-exception"))
        if d["expect"] == "reject" and accepted:
            why = {"schema": "violates the published schema (%s; jsonschema: %s)" % (d["kind"], d.get("label", "")), "version": "has version %r" % d["kind"],
                   "length": "has list-valued parameters of inconsistent lengths (%s)" % d["kind"]}[d["cat"]]
            viol.append(dict(info, what="a file that %s was accepted" % why, probe="accepted:%s:%s" % (d["cat"], d["kind"].split("@")[0].split(":")[0])))
        if d["expect"] == "accept" and not accepted:
            viol.append(dict(info, what="the consistent control document of the length catalogue (%s) was rejected: %s" % (d["kind"], first[:200]), probe="control-rejected:%s" % d["kind"]))
        if d["expect"] == "same":
            base = by_path.get(d["base"])
            if base is None or base != outs:
                diff = next((i for i, (a, b) in enumerate(zip(base or [], outs)) if a != b), None)
                viol.append(dict(info, what="a file that differs from %s only in formatting (%s) does not build an indistinguishable world: answer %s differs (%s vs %s)" % (
                    os.path.basename(d["base"]), d["kind"], diff, (base or ["?"])[diff or 0][:80], outs[diff or 0][:80] if outs else "?"), probe="format:%s" % d["kind"]))
        if len(samples) < 3 and d["cat"] in ("length", "schema"):
            samples.append({"category": d["cat"], "kind": d["kind"], "answer": first[:160], "document": json.dumps(d["doc"])[:400]})
    # uninitialised reads: valgrind memcheck on a sample (plain build)
    vg = {}
    if tier == "thorough" or os.environ.get("VERIF_C12_VALGRIND"):
        vg = valgrind_sample(docs, budget(tier, 6, 60))
        viol += vg.pop("violations")
    nontriv = sum(v for k, v in stats.items() if not k.startswith("valid:"))
    return {"violations": trim_violations(viol, 30), "summary": {"cases": len(docs), "violations": len(viol), "nontrivial": nontriv, "outcomes": stats, "valgrind": vg,
                                                 "schema_labels": {"invalid": sum(1 for l in labels if l.startswith("invalid")), "valid": sum(1 for l in labels if l == "valid")}},
            "samples": samples}


def valgrind_sample(docs, n):
    pick = [d for d in docs if d["cat"] in ("valid", "length", "length-control", "schema")][:n]
    h = build_repo.compile_harness(os.path.join(proto.VERIF, "harness", "wbharness.cc"), "plain")
    viol = []
    ran = 0
    for k, d in enumerate(pick):
        lines = ["world v %s -" % d["path"]] + qlines("v")
        p = subprocess.run(["valgrind", "--error-exitcode=97", "--track-origins=no", "-q", h], input="\n".join(lines) + "\n", stdout=subprocess.PIPE, stderr=subprocess.PIPE, text=True, timeout=900)
        ran += 1
        if p.returncode == 97 or "uninitialised" in p.stderr:
            viol.append({"what": "valgrind memcheck: %s" % p.stderr[-600:].replace("\n", " | "), "document": d["path"], "category": d["cat"], "kind": d["kind"], "probe": "valgrind:%s" % d["kind"],
                         "world_json": d["doc"]})
    return {"documents": ran, "violations": viol}


def correspondence(seed, tier):
    wdir = proto.workdir("C12")
    docs = [d for d in build_documents(seed, tier, wdir) if d["cat"] in ("valid", "schema", "version", "length", "length-control")]
    lines = []
    for k, d in enumerate(docs):
        lines.append("world d%d %s -" % (k, d["path"]))
        lines.append("free d%d" % k)
    rc1, out1, err1 = proto.run_harness(lines)
    rc2, out2, err2 = proto.run_driver(lines)
    mism, cls, skipped = [], {}, 0
    if rc1 != 0 or rc2 != 0 or len(out1) != len(lines) or len(out2) != len(lines):
        mism.append({"what": "one side did not answer every document: library rc=%s (%d/%d) %s; model rc=%s (%d/%d) %s" % (rc1, len(out1), len(lines), err1[-300:], rc2, len(out2), len(lines), err2[-300:]), "scope": "C12"})
    for k, d in enumerate(docs):
        if 2 * k >= min(len(out1), len(out2)):
            break
        a, b = out1[2 * k], out2[2 * k]
        ca = "ok" if a == "ok" else " ".join(a.split()[:2])
        cb = "ok" if b == "ok" else " ".join(b.split()[:2])
        if cb == "err unsupported":
            skipped += 1
            continue
        cls[ca] = cls.get(ca, 0) + 1
        if ca != cb:
            mism.append({"what": "accept/reject class differs on a %s document (%s): library `%s`, model `%s`" % (d["cat"], d["kind"], a[:160], b[:80]), "scope": "C12", "document": d["path"], "world_json": d["doc"]})
    return {"summary": {"cases": len(docs), "mismatches": len(mism), "nontrivial": sum(v for c, v in cls.items() if c != "ok"), "classes": cls, "unsupported_by_model": skipped,
                        "bit_identical_share": None},
            "mismatches": mism[:20], "samples": [{"document": docs[0]["path"], "library": out1[0][:100] if out1 else "", "model": out2[0][:100] if out2 else ""}] if docs else []}


def replay(rp):
    v = rp.get("violation", {})
    print(json.dumps({k: v[k] for k in v if k != "world_json"}, indent=1)[:3000])
    path = v.get("document")
    if path and os.path.exists(path):
        res = run_groups([["world r %s -" % path] + qlines("r")], "asan")
        print(res[0])
    return False
