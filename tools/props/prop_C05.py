"""C05 — documented closed-form models return the documented value inside their range."""
import json, math, os, random
from common import *

LEVEL = "proof"
RULE = ("correspondence: the general model-vs-library run (all modelled temperature/composition/velocity/grains models of all six feature kinds, bit for bit). "
        "oracle (statement-level, independent reference written in Python from doc/world_builder_declarations_open.md): single-feature worlds, one model under test with "
        "generated parameters (sentinel negatives, per-model min/max ranges narrower and wider than the feature, random global constants), queried at interior points, at "
        "points inside the feature but outside the model's range (must keep the background) and at the range boundaries; expected values from the closed forms "
        "(uniform, linear, adiabatic, chapman, half-space, plate model, constant-age plate, gaussian plume; uniform/smooth composition; uniform raw velocity; uniform grains), "
        "relative tolerance 1e-9. non-trivial = a point where the model under test determined the answer.")
TRUSTED_BASE = ["the Python reference formulas are an independent reading of the documentation; they agree with Spec/Models.lean by inspection, not by proof",
                "ridge distance: straight-line / great-circle distance to the nearest point of the ridge polyline, computed independently in Python"]
ASSUMPTIONS = ["slab/fault 'linear' with a negative boundary temperature is excluded from the oracle: the documentation does not say at which depth 'an adiabatic temperature' is taken and the code evaluates "
               "the adiabat at the *distance* from the slab top; recorded as an observation in DESIGN.md, not as a finding",
               "plate-model series: the reference sums the same 100 documented terms"]

YEAR = 60.0 * 60.0 * 24.0 * 365.25
SQ = [[-500e3, -500e3], [500e3, -500e3], [500e3, 500e3], [-500e3, 500e3]]


class G:
    """global constants of a world (documented defaults unless overridden)"""
    def __init__(self, rng, w):
        self.Tp, self.alpha, self.cp, self.kappa, self.g = 1600.0, 3.5e-5, 1250.0, 0.804e-6, 9.81
        if rng.random() < 0.5:
            self.Tp = rng.choice([1500.0, 1650.0]); w["potential mantle temperature"] = self.Tp
        if rng.random() < 0.4:
            self.alpha = rng.choice([2e-5, 4e-5]); w["thermal expansion coefficient"] = self.alpha
        if rng.random() < 0.4:
            self.cp = rng.choice([1000.0, 1200.0]); w["specific heat"] = self.cp
        if rng.random() < 0.4:
            self.kappa = rng.choice([1e-6, 0.6e-6]); w["thermal diffusivity"] = self.kappa
        if rng.random() < 0.4:
            self.g = rng.choice([10.0, 11.0]); w["gravity model"] = {"model": "uniform", "magnitude": self.g}

    def adiabat(self, d, Tp=None, alpha=None, cp=None):
        return (self.Tp if Tp is None else Tp) * math.exp((self.alpha if alpha is None else alpha) * self.g * d / (self.cp if cp is None else cp))


def ridge_distance(ridge, p):
    best = None
    for a, b in zip(ridge, ridge[1:]):
        vx, vy = b[0] - a[0], b[1] - a[1]
        t = ((p[0] - a[0]) * vx + (p[1] - a[1]) * vy) / (vx * vx + vy * vy)
        t = max(0.0, min(1.0, t))
        d = math.hypot(p[0] - a[0] - t * vx, p[1] - a[1] - t * vy)
        best = d if best is None else min(best, d)
    return best


def area_case(rng, kind, what=None, tname=None):
    """(world, list of (point, depth, property, expected, nontrivial)) for an area feature with one model under test"""
    w = {"version": "1.1", "features": []}
    gl = G(rng, w)
    fmin = rng.choice([0, 20e3, 50e3]); fmax = rng.choice([150e3, 200e3, 300e3])
    f = {"model": kind, "name": "f", "coordinates": SQ, "min depth": fmin, "max depth": fmax}
    mn = rng.choice([None, 0, 10e3, 30e3, 60e3]); mx = rng.choice([None, 100e3, 180e3, 400e3])
    m = {}
    _mx_required = True
    if mn is not None: m["min depth"] = mn
    if mx is not None: m["max depth"] = mx
    mnv = 0.0 if mn is None else mn
    mxv = float("inf") if mx is None else mx
    ztop, zbot = max(fmin, mnv), min(fmax, mxv)
    names = {"continental plate": ["uniform", "linear", "adiabatic", "chapman"], "oceanic plate": ["uniform", "linear", "adiabatic", "half space model", "plate model", "plate model constant age"],
             "mantle layer": ["uniform", "linear", "adiabatic"]}[kind]
    what = what or rng.choice(["T"] * 5 + ["C", "V", "G"])
    exp = []
    depths = [rng.uniform(fmin, fmax) for _ in range(6)] + [ztop + 1.0, zbot - 1.0, 0.5 * (ztop + zbot)]
    if mn is not None and fmin < mn: depths.append(0.5 * (fmin + mn))
    if mx is not None and mx < fmax: depths.append(0.5 * (mx + fmax))
    pts = [([rng.uniform(-400e3, 400e3), rng.uniform(-400e3, 400e3)], d) for d in depths if fmin <= d <= fmax]
    inr = lambda d: mnv <= d <= mxv
    if what == "T":
        name = tname or rng.choice(names)
        m["model"] = name
        if name == "uniform":
            T = rng.choice([273.0, 600.0, 1400.5]); m["temperature"] = T
            fn = lambda p, d: T
        elif name == "linear":
            if mx is None:
                mx = rng.choice([100e3, 180e3, 400e3]); m["max depth"] = mx; mxv = mx; zbot = min(fmax, mxv)
            top = rng.choice([-1, -1, 273.0, 500.0]); bot = rng.choice([-1, -1, 1300.0, 1600.0])
            m["top temperature"] = top; m["bottom temperature"] = bot
            tt = gl.adiabat(ztop) if top < 0 else top; tb = gl.adiabat(zbot) if bot < 0 else bot
            fn = lambda p, d: tt + (d - ztop) * (tb - tt) / (zbot - ztop)
        elif name == "adiabatic":
            Tp = rng.choice([-1, 1400.0]); al = rng.choice([-1, 3e-5]); cp = rng.choice([-1, 1100.0])
            for k, v in (("potential mantle temperature", Tp), ("thermal expansion coefficient", al), ("specific heat", cp)):
                if v != -1 or rng.random() < 0.5: m[k] = v
            fn = lambda p, d: gl.adiabat(d, None if Tp < 0 else Tp, None if al < 0 else al, None if cp < 0 else cp)
        elif name == "chapman":
            top = rng.choice([-1, 273.0, 293.15]); q = rng.choice([0.03, 0.055]); k = rng.choice([2.5, 3.0]); A = rng.choice([0, 1e-6, 2e-7])
            m.update({"top temperature": top, "top heat flux": q, "thermal conductivity": k, "heat generation per unit volume": A})
            tt = gl.adiabat(ztop) if top < 0 else top
            fn = lambda p, d: tt + (q / k) * (d - ztop) - (A / (2 * k)) * (d - ztop) ** 2
        else:
            top = rng.choice([273.0, 293.15]); bot = rng.choice([-1, 1573.0, 1600.0])
            m["top temperature"] = top; m["bottom temperature"] = bot
            D = mx if mx is not None else 150e3
            m["max depth"] = D; mxv = D; zbot = min(fmax, D)
            inr = lambda d: mnv <= d <= D
            if name == "plate model constant age":
                age_y = rng.choice([1e6, 2e7, 8e7, 1.5e8]); m["plate age"] = age_y
                def fn(p, d):
                    tb = gl.adiabat(d) if bot < 0 else bot
                    s = d / D
                    for n in range(1, 101):
                        s += 2 / (n * math.pi) * math.sin(n * math.pi * d / D) * math.exp(-(n * n * math.pi * math.pi * gl.kappa * age_y * YEAR) / (D * D))
                    return top + (tb - top) * s
            else:
                v = rng.choice([0.01, 0.05, 0.1]); m["spreading velocity"] = v
                ridge = rng.choice([[[0, -1e6], [0, 1e6]], [[-100e3, -1e6], [50e3, 0], [-20e3, 1e6]], [[-600e3, -1e6], [-600e3, 1e6]]])
                m["ridge coordinates"] = [ridge]
                def fn(p, d):
                    tb = gl.adiabat(d) if bot < 0 else bot
                    age = ridge_distance(ridge, p) / (v / YEAR)
                    if name == "half space model":
                        return tb + (top - tb) * math.erfc(d / (2 * math.sqrt(gl.kappa * age))) if age > 0 else tb
                    vs = v / YEAR
                    s = d / D
                    for n in range(1, 101):
                        s += 2 / (n * math.pi) * math.sin(n * math.pi * d / D) * math.exp((vs * D / (2 * gl.kappa) - math.sqrt(vs * vs * D * D / (4 * gl.kappa ** 2) + n * n * math.pi ** 2)) * vs * age / D)
                    return top + (tb - top) * s
        f["temperature models"] = [m]
        for p, d in pts:
            if inr(d):
                exp.append((p, d, (1, 0, 0), [fn(p, d)], True, name))
            else:
                exp.append((p, d, (1, 0, 0), [gl.adiabat(d)], False, name + "/outside"))
    elif what == "C":
        m["model"] = "uniform"
        comps = rng.sample(range(0, 5), rng.choice([1, 2, 3])); fr = [rng.choice([1.0, 0.5, 0.25]) for _ in comps]
        m["compositions"] = comps; m["fractions"] = fr
        f["composition models"] = [m]
        for p, d in pts:
            for c in range(5):
                e = (fr[comps.index(c)] if c in comps else 0.0) if inr(d) else 0.0
                exp.append((p, d, (2, c, 0), [e], inr(d) and c in comps, "composition uniform"))
    elif what == "V":
        m["model"] = "uniform raw"; v = [rng.choice([0, 0.01, -0.02]), rng.choice([0.03, 0]), rng.choice([0, -0.005])]
        m["velocity"] = v
        f["velocity models"] = [m]
        for p, d in pts:
            exp.append((p, d, (5, 0, 0), v if inr(d) else [0.0, 0.0, 0.0], inr(d), "velocity uniform raw"))
    else:
        m["model"] = "uniform"; comps = rng.sample(range(0, 3), rng.choice([1, 2]))
        sizes = [rng.choice([-1, 0.5, 0.125]) for _ in comps]
        mats = [rng.choice([[[1, 0, 0], [0, 1, 0], [0, 0, 1]], [[0, -1, 0], [1, 0, 0], [0, 0, 1]], [[1, 0, 0], [0, 0, -1], [0, 1, 0]]]) for _ in comps]
        m.update({"compositions": comps, "grain sizes": sizes, "rotation matrices": mats})
        f["grains models"] = [m]
        k = rng.choice([1, 2, 5])
        for p, d in pts:
            for ci, c in enumerate(comps):
                if inr(d):
                    s = 1.0 / k if sizes[ci] < 0 else sizes[ci]
                    e = [s] * k + [x for _ in range(k) for row in mats[ci] for x in row]
                    exp.append((p, d, (3, c, k), [float(x) for x in e], True, "grains uniform"))
    w["features"].append(f)
    return w, exp


def plume_case(rng):
    w = {"version": "1.1", "features": []}
    gl = G(rng, w)
    a = rng.choice([100e3, 250e3])
    cs = [100e3, 300e3, 600e3]
    f = {"model": "plume", "name": "p", "coordinates": [[0, 0], [0, 0], [0, 0]], "cross section depths": cs, "semi-major axis": [a, a, a], "eccentricity": [0, 0, 0],
         "rotation angles": [0, 0, 0], "min depth": 100e3, "max depth": 600e3}
    ds = [100e3, 350e3, 600e3] if rng.random() < 0.5 else [150e3, 500e3]
    tc = [rng.choice([-1, 1700.0, 1900.0]) for _ in ds]
    tc = tc if all(t >= 0 for t in tc) or all(t < 0 for t in tc) else [abs(t) if t > 0 else 1800.0 for t in tc]
    sg = [rng.choice([0.3, 0.5, 1.0]) for _ in ds]
    f["temperature models"] = [{"model": "gaussian", "depths": ds, "centerline temperatures": tc, "gaussian sigmas": sg}]
    w["features"].append(f)
    exp = []
    for _ in range(10):
        d = rng.uniform(101e3, 599e3)
        r = rng.uniform(0, 0.95) * a; th = rng.uniform(0, 6.28)
        p = [r * math.cos(th), r * math.sin(th)]
        if d <= ds[0]: c, s = tc[0], sg[0]
        elif d >= ds[-1]: c, s = tc[-1], sg[-1]
        else:
            i = max(j for j in range(len(ds)) if ds[j] <= d)
            t = (d - ds[i]) / (ds[i + 1] - ds[i]); c = tc[i] + t * (tc[i + 1] - tc[i]); s = sg[i] + t * (sg[i + 1] - sg[i])
        if c < 0: c = gl.adiabat(d)
        exp.append((p, d, (1, 0, 0), [c * math.exp(-((r / a) ** 2) / (2 * s * s))], True, "gaussian"))
    return w, exp


def line_case(rng, kind, what=None):
    """vertical slab (top plane y = 0, body 0 <= y <= thickness) or vertical fault (centre plane y = 0)"""
    w = {"version": "1.1", "features": []}
    gl = G(rng, w)
    fault = kind == "fault"
    th = rng.choice([100e3, 200e3]); L = 400e3
    f = {"model": kind, "name": "l", "coordinates": [[-800e3, 0], [800e3, 0]], "dip point": [0, 1e7], "segments": [{"length": L, "thickness": [th], "angle": [90]}]}
    dk = "fault center" if fault else "slab top"
    half = th / 2 if fault else th
    what = what or rng.choice(["uniform", "linear", "adiabatic", "Cuniform", "Csmooth", "V", "G"])
    mn = rng.choice([0, 0, 10e3]); mx = rng.choice([half, 0.5 * half, 2 * half])
    m = {"min distance " + dk: mn, "max distance " + dk: mx}
    pts = []
    for _ in range(10):
        y = rng.uniform(-half, half) if fault else -rng.uniform(0, half)   # the body of a vertical slab dipping towards +y lies on the -y side of its top plane
        pts.append(([rng.uniform(-500e3, 500e3), y], rng.uniform(5e3, L - 5e3)))
    exp = []
    dist = (lambda p: abs(p[1]))
    inr = lambda p: mn <= dist(p) <= mx
    if what in ("uniform", "linear", "adiabatic"):
        m["model"] = what
        if what == "uniform":
            T = rng.choice([500.0, 1200.0]); m["temperature"] = T; fn = lambda p, d: T
        elif what == "linear":
            t0, t1 = rng.choice([400.0, 700.0]), rng.choice([1300.0, 1500.0])
            m["center temperature" if fault else "top temperature"] = t0; m["side temperature" if fault else "bottom temperature"] = t1
            fn = lambda p, d: t0 + (dist(p) - mn) * (t1 - t0) / (mx - mn)
        else:
            Tp = rng.choice([-1, 1400.0]); al = rng.choice([-1, 3e-5]); cp = rng.choice([-1, 1100.0])
            m.update({"potential mantle temperature": Tp, "thermal expansion coefficient": al, "specific heat": cp})
            fn = lambda p, d: gl.adiabat(d, None if Tp < 0 else Tp, None if al < 0 else al, None if cp < 0 else cp)
        f["temperature models"] = [m]
        for p, d in pts:
            exp.append((p, d, (1, 0, 0), [fn(p, d) if inr(p) else gl.adiabat(d)], inr(p), kind + "/" + what))
    elif what == "Cuniform":
        comps = rng.sample(range(0, 4), 2); fr = [rng.choice([1.0, 0.5]) for _ in comps]
        m.update({"model": "uniform", "compositions": comps, "fractions": fr}); f["composition models"] = [m]
        for p, d in pts:
            for c in range(4):
                exp.append((p, d, (2, c, 0), [(fr[comps.index(c)] if c in comps else 0.0) if inr(p) else 0.0], inr(p) and c in comps, kind + "/composition uniform"))
    elif what == "Csmooth":
        comps = rng.sample(range(0, 4), 2)
        a = [rng.choice([1.0, 0.75]) for _ in comps]; b = [rng.choice([0.0, 0.25]) for _ in comps]
        if fault:
            side = rng.choice([half, 2 * half])
            m = {"model": "smooth", "compositions": comps, "center fractions": a, "side fractions": b, "side distance fault center": side}
            inr = lambda p: True
            fn = lambda p, i: b[i] + (a[i] - b[i]) * (1 - math.tanh(10 * (dist(p) - side / 2) / side)) / 2
        else:
            side = abs(mx - mn)
            m.update({"model": "smooth", "compositions": comps, "top fractions": a, "bottom fractions": b})
            def fn(p, i):
                s = (1 - math.tanh(10 * (dist(p) - mn - side / 2) / side)) / 2
                return b[i] + (a[i] - b[i]) * s
        f["composition models"] = [m]
        for p, d in pts:
            for c in range(4):
                exp.append((p, d, (2, c, 0), [(fn(p, comps.index(c)) if c in comps else 0.0) if inr(p) else 0.0], inr(p) and c in comps, kind + "/composition smooth"))
    elif what == "V":
        v = [0.01, rng.choice([0.0, -0.03]), rng.choice([0.0, 0.002])]
        m.update({"model": "uniform raw", "velocity": v}); f["velocity models"] = [m]
        for p, d in pts:
            exp.append((p, d, (5, 0, 0), v if inr(p) else [0.0] * 3, inr(p), kind + "/velocity uniform raw"))
    else:
        comps = [rng.choice([0, 1])]; sizes = [rng.choice([-1, 0.25])]; mats = [[[0, -1, 0], [1, 0, 0], [0, 0, 1]]]
        m.update({"model": "uniform", "compositions": comps, "grain sizes": sizes, "rotation matrices": mats}); f["grains models"] = [m]
        k = rng.choice([1, 3])
        for p, d in pts:
            if inr(p):
                s = 1.0 / k if sizes[0] < 0 else sizes[0]
                exp.append((p, d, (3, comps[0], k), [s] * k + [float(x) for _ in range(k) for row in mats[0] for x in row], True, kind + "/grains uniform"))
    w["features"].append(f)
    return w, exp


def range_surface_cases(rng):
    """'a model applies only inside its own min/max range' when that range is a depth SURFACE: every area feature kind x every model kind x the four
    constant / value-at-points combinations of the model's min and max depth.  The surfaces are affine (every corner listed with the value of one affine
    function), so the local bound at a query point is that function whatever triangulation is used."""
    for kind in ("continental plate", "oceanic plate", "mantle layer"):
        for what in ("T", "C", "V", "G") + (("W",) if kind == "oceanic plate" else ()):
            for combo in ("const/const", "const/surface", "surface/const", "surface/surface"):
                w = {"version": "1.1", "features": []}
                gl = G(rng, w)
                f = {"model": kind, "name": "f", "coordinates": SQ, "min depth": 0, "max depth": 500e3}
                def surf(base):
                    bx, by = rng.choice([-0.02, 0.0, 0.01, 0.03]), rng.choice([-0.01, 0.0, 0.02])
                    fn = lambda q, base=base, bx=bx, by=by: base + bx * q[0] + by * q[1]
                    return fn, [[fn(c), [list(c)]] for c in SQ]
                mnc, mxc = combo.split("/")
                mn0, mx0 = rng.choice([40e3, 60e3]), rng.choice([180e3, 220e3])
                if mnc == "surface":
                    fmn, emn = surf(mn0)
                else:
                    fmn, emn = (lambda q, v=mn0: v), mn0
                if mxc == "surface":
                    fmx, emx = surf(mx0)
                else:
                    fmx, emx = (lambda q, v=mx0: v), mx0
                m = {"min depth": emn, "max depth": emx}
                name = "%s %s range %s" % (kind, {"T": "temperature uniform", "C": "composition uniform", "V": "velocity uniform raw", "G": "grains uniform",
                                                  "W": "tian water content (replace wipes the other compositions)"}[what], combo)
                exp = []
                pts = []
                for _ in range(6):
                    q = [rng.uniform(-450e3, 450e3), rng.uniform(-450e3, 450e3)]
                    lo, hi = fmn(q), fmx(q)
                    for d, inside in ((lo * (1 - 1e-6) - 1.0, False), (lo * (1 + 1e-6) + 1.0, True), ((lo + hi) / 2, True), (hi * (1 - 1e-6) - 1.0, True), (hi * (1 + 1e-6) + 1.0, False),
                                      (max(mx0, hi) + 12e3, False), (min(mn0, lo) - 12e3, False)):
                        pts.append((q, d, inside))
                if what == "T":
                    m.update({"model": "uniform", "temperature": 777.0}); f["temperature models"] = [m]
                    exp = [(q, d, (1, 0, 0), [777.0 if ins else gl.adiabat(d)], ins, name) for (q, d, ins) in pts]
                elif what == "C":
                    m.update({"model": "uniform", "compositions": [1], "fractions": [0.75]}); f["composition models"] = [m]
                    exp = [(q, d, (2, 1, 0), [0.75 if ins else 0.0], ins, name) for (q, d, ins) in pts]
                elif what == "W":
                    # the water-content model lists composition 0 only; with the default operation `replace` every OTHER composition is set to 0 inside the model's own
                    # (local) range and left alone outside it: composition 1 was painted 0.75 over the whole feature by the model before it
                    m.update({"model": "tian water content", "compositions": [0], "lithology": "peridotite", "initial water content": 2, "cutoff pressure": 10})
                    f["temperature models"] = [{"model": "uniform", "temperature": 900}]
                    f["composition models"] = [{"model": "uniform", "compositions": [1], "fractions": [0.75]}, m]
                    exp = [(q, d, (2, 1, 0), [0.0 if ins else 0.75], ins, name) for (q, d, ins) in pts if 0 <= d <= 500e3]
                elif what == "V":
                    m.update({"model": "uniform raw", "velocity": [0.01, -0.02, 0.03]}); f["velocity models"] = [m]
                    exp = [(q, d, (5, 0, 0), [0.01, -0.02, 0.03] if ins else [0.0, 0.0, 0.0], ins, name) for (q, d, ins) in pts]
                else:
                    m.update({"model": "uniform", "compositions": [0], "grain sizes": [0.25], "rotation matrices": [[[0, -1, 0], [1, 0, 0], [0, 0, 1]]]}); f["grains models"] = [m]
                    exp = [(q, d, (3, 0, 2), ([0.25, 0.25] + [0.0, -1.0, 0.0, 1.0, 0.0, 0.0, 0.0, 0.0, 1.0] * 2) if ins else [0.0] * 20, ins, name) for (q, d, ins) in pts]
                w["features"].append(f)
                yield w, exp


def structured_cases(rng, rounds):
    """every (feature kind x documented model) combination is visited in turn; parameters, sentinels and ranges are drawn at random"""
    plan = []
    for kind, names in (("continental plate", ["uniform", "linear", "adiabatic", "chapman"]), ("oceanic plate", ["uniform", "linear", "adiabatic", "half space model", "plate model", "plate model constant age"]),
                        ("mantle layer", ["uniform", "linear", "adiabatic"])):
        plan += [(kind, "T", nm) for nm in names] + [(kind, "T", "linear")] + [(kind, x, None) for x in ("C", "V", "G")]
    plan += [("plume", None, None)] * 2
    for kind in ("subducting plate", "fault"):
        plan += [(kind, x, None) for x in ("uniform", "linear", "adiabatic", "Cuniform", "Csmooth", "V", "G")]
    for wi in range(rounds * len(plan)):
        kind, what, tname = plan[wi % len(plan)]
        yield plume_case(rng) if kind == "plume" else (line_case(rng, kind, what) if kind in ("subducting plate", "fault") else area_case(rng, kind, what, tname))
    # the full enumeration of range-surface combinations, once per run
    yield from range_surface_cases(rng)


def correspondence(seed, tier):
    n = budget(tier, 25, 300)
    rs = [corr.run_corr(seed * 1000 + 50 + k, "C05_%d" % k, n, 25, {"with_random": False, "with_lines": True}) for k in range(budget(tier, 1, 3))]
    # slabs with the slab-only temperature models (plate model, mass conserving: ridge tables, reference models, spline on/off)
    rs += [corr.run_corr(seed * 1000 + 55 + k, "C05_slab_%d" % k, max(10, n // 2), 30, {"with_random": False, "with_lines": True, "allow": ["subducting plate"], "slab_models": 0.7}) for k in range(budget(tier, 1, 3))]
    # the structured single-model worlds of the oracle (other seed), model vs library bit for bit
    rng = random.Random(seed * 7907 + 55)
    wdir = proto.workdir("C05_struct")
    lines = []
    for wi, (w, exp) in enumerate(structured_cases(rng, budget(tier, 2, 20))):
        path = os.path.join(wdir, "s_%d.wb" % wi)
        json.dump(w, open(path, "w"))
        lines.append("world w %s - aux %s.aux" % (path, path))
        lines += [q3("w", [p[0], p[1], 1000e3 - d], d, [pr]) for (p, d, pr, e, nt, nm) in exp]
        lines.append("free w")
    rs.append(corr_lines(lines))
    return summarize_corr(rs)


def oracle(seed, tier):
    rng = random.Random(seed * 6151 + 5)
    wdir = proto.workdir("C05_oracle")
    viol, cases, nontriv, samples, dist = [], 0, 0, [], {}
    for wi, (w, exp) in enumerate(structured_cases(rng, budget(tier, 4, 40))):
        path = os.path.join(wdir, "m_%d.wb" % wi)
        json.dump(w, open(path, "w"))
        lines = ["world w %s -" % path] + [q3("w", [p[0], p[1], 1000e3 - d], d, [pr]) for (p, d, pr, e, nt, nm) in exp]
        rc, out, err = proto.run_harness(lines)
        if rc != 0 or len(out) != len(lines) or out[0] != "ok":
            viol.append({"what": "library failed on a documented configuration: rc=%s %s %s" % (rc, out[:1], err[-200:]), "world_json": w}); continue
        for (p, d, pr, e, nt, nm), o, line in zip(exp, out[1:], lines[1:]):
            a = parse_answer(o)
            cases += 1
            dist[nm] = dist.get(nm, 0) + 1
            nontriv += 1 if nt else 0
            ok = a[0] == "ok" and len(a[1]) == len(e) and all(abs(x - y) <= 1e-9 * max(1.0, abs(x), abs(y)) for x, y in zip(a[1], e))
            if not ok:
                probe = None
                if pr[0] == 5 and a[0] == "ok" and len(a[1]) == 3 and a[1][:2] == e[:2] and a[1][2] == a[1][0] + 2 and not nt:
                    # fault.cc / subducting_plate.cc read the previous z velocity as `output[entry]+2` (instead of `output[entry+2]`)
                    probe = "line-velocity-old-z-read-as-x-plus-2"
                viol.append({"what": "%s: library %s, documented value %s at depth %.6g, surface point %s" % (nm, a[1][:4] if a[0] == "ok" else a, [float("%.10g" % x) for x in e[:4]], d, p),
                             "model": nm, "world_json": w, "world": path, "cmd": line, "expected": e, "got": a[1] if a[0] == "ok" else str(a), "probe": probe})
                break
        if len(samples) < 3:
            samples.append({"world": w, "cmd": lines[1], "answer": out[1][:80], "expected": exp[0][3][:3]})
    return {"violations": trim_violations(viol, 20), "summary": {"cases": cases, "violations": len(viol), "nontrivial": nontriv, "input_distribution": dist}, "samples": samples}


def replay(rp):
    v = rp["violation"]
    print(json.dumps({k: v[k] for k in v if k != "world_json"}, indent=1)[:3000])
    return False
