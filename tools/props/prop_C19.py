"""C19 — geometric kernels agree with their brute-force definitions."""
import itertools, json, math, os, random
from fractions import Fraction
from common import *
from prop_C04 import exact_inside, lattice_polygon, is_simple

LEVEL = "proof"
RULE = ("correspondence: direct kernel calls — kd-tree search, polygon test, Bezier closest point (Cartesian and spherical), Cartesian<->spherical conversion, same-depth distance — "
        "on the library (harness kpoly/kkd/kbez/kconv/kgc) and on the Lean model, bit for bit (kd answers compared by distance: the library's nth_element order is unspecified). "
        "Lattice tier: kd-tree on every set of 1-4 points of a 4x4 integer lattice x the 7x7 half-lattice of query points (thorough: all; quick: a random fifth); polygons on the doubled lattice. "
        "oracle (library only): kd distance vs brute-force minimum; polygon vs exact rational even-odd+boundary test; trench curves with bends <= 60 degrees: the curve passes through its "
        "coordinates, the reported point is the curve at the reported parameter, and no sampled curve point (400 per piece) is closer by more than 1e-6 of the piece length; conversion round trip "
        "within 1e-12 relative; same-depth distance vs the haversine great-circle distance for all pairs incl. > 90 degrees apart. non-trivial = every case (kernels have no trivial inputs).")
TRUSTED_BASE = ["real-number semantics: the theorems are over ordered fields / R with stated sqrt and trig laws; IEEE rounding is covered by the correspondence only",
                "Newton closest-point convergence for bends <= 60 degrees is NOT proved; it is validated by dense sampling"]
ASSUMPTIONS = ["kd-tree theorem assumes the nth_element post-condition (KdInv) of the node array"]


def hx(vs):
    return " ".join(fhex(v) for v in vs)


def polyline(rng, sph):
    n = rng.choice([2, 3, 4, 5, 6])
    az = rng.uniform(0, 2 * math.pi)
    step = rng.uniform(0.5, 3) * (math.pi / 180) if sph else rng.choice([50e3, 200e3, 400e3])
    x, y = (rng.uniform(-2.5, 2.5), rng.uniform(-1.0, 1.0)) if sph else (rng.uniform(-1e6, 1e6), rng.uniform(-1e6, 1e6))
    pts = []
    for i in range(n):
        pts.append((x, y))
        az += rng.uniform(-1.0, 1.0) if i > 0 else 0          # bends up to ~57 degrees
        x += step * math.cos(az); y += step * math.sin(az)
    return pts, step


def folded_polyline(rng, sph):
    """a trench that turns back on itself through several bends of the same sign, each at most 60 degrees (a hairpin / hook): the distance from a point to
    successive pieces is then not monotone along the curve, so a search that stops early or prunes pieces shows"""
    n = rng.choice([5, 6, 7, 8, 9])
    az = rng.uniform(0, 2 * math.pi)
    step = rng.uniform(0.5, 2) * (math.pi / 180) if sph else rng.choice([50e3, 200e3, 400e3])
    x, y = (rng.uniform(-2.5, 2.5), rng.uniform(-1.0, 1.0)) if sph else (rng.uniform(-1e6, 1e6), rng.uniform(-1e6, 1e6))
    sgn = rng.choice([-1, 1])
    pts = []
    for i in range(n):
        pts.append((x, y))
        az += sgn * rng.uniform(0.6, 1.04) if i > 0 else 0          # 34 ... 60 degrees, same sign
        l = step * rng.uniform(0.6, 1.6)
        x += l * math.cos(az); y += l * math.sin(az)
    return pts, step


def any_polyline(rng, sph):
    return folded_polyline(rng, sph) if rng.random() < 0.35 else polyline(rng, sph)


def correspondence(seed, tier):
    rng = random.Random(seed * 9973 + 19)
    lines = []
    lattice = [(i, j) for i in range(4) for j in range(4)]
    sets = [c for k in (1, 2, 3, 4) for c in itertools.combinations(lattice, k)]
    exhaustive = tier == "thorough"
    if not exhaustive:
        sets = rng.sample(sets, len(sets) // 5)
    qpts = [(i / 2.0, j / 2.0) for i in range(-1, 8, 1) for j in range(-1, 8, 1)]
    for s in sets:
        for q in (qpts if exhaustive else rng.sample(qpts, 6)):
            lines.append("kkd %d %s %s" % (len(s), hx([v for p in s for v in p]), hx(q)))
    for _ in range(budget(tier, 300, 3000)):
        n = rng.randint(1, 40)
        pts = [(rng.uniform(-1e6, 1e6), rng.uniform(-1e6, 1e6)) for _ in range(n)]
        lines.append("kkd %d %s %s" % (n, hx([v for p in pts for v in p]), hx((rng.uniform(-1.2e6, 1.2e6), rng.uniform(-1.2e6, 1.2e6)))))
    for _ in range(budget(tier, 150, 1500)):
        poly = lattice_polygon(rng, rng.choice([3, 4, 6]))
        for q in rng.sample([(i / 2.0, j / 2.0) for i in range(-14, 15) for j in range(-14, 15)], 12):
            lines.append("kpoly 0 %d %s %s" % (len(poly), hx([v for p in poly for v in p]), hx(q)))
    for _ in range(budget(tier, 300, 3000)):
        sph = rng.random() < 0.5
        pts, step = any_polyline(rng, sph)
        i = rng.randrange(len(pts) - 1)
        t = rng.uniform(-0.1, 1.1)
        off = rng.uniform(-2, 2) * step
        bx, by = pts[i][0] + t * (pts[i + 1][0] - pts[i][0]), pts[i][1] + t * (pts[i + 1][1] - pts[i][1])
        nx, ny = -(pts[i + 1][1] - pts[i][1]), pts[i + 1][0] - pts[i][0]
        nn = math.hypot(nx, ny) or 1
        q = (bx + off * nx / nn, by + off * ny / nn)
        lines.append("kbez %d %d %s %s" % (int(sph), len(pts), hx([v for p in pts for v in p]), hx(q)))
    for _ in range(budget(tier, 300, 3000)):
        p = [rng.choice([0, 1, -1]) * rng.uniform(0, 7e6) for _ in range(3)]
        lines.append("kconv %s" % hx(p))
        lines.append("kgc %s" % hx([rng.choice([6371e3, 1e6, 5e6]), rng.uniform(-math.pi, math.pi), rng.uniform(-1.5, 1.5), rng.uniform(-math.pi, math.pi), rng.uniform(-1.5, 1.5)]))
    rc1, o1, e1 = proto.run_harness(lines)
    rc2, o2, e2 = proto.run_driver(lines)
    st = corr.Stats()
    mism = []
    if rc1 != 0 or rc2 != 0 or len(o1) != len(lines) or len(o2) != len(lines):
        mism.append({"what": "harness/driver died (%s/%s, %d/%d of %d)" % (rc1, rc2, len(o1), len(o2), len(lines)), "scope": "kernels"})
    kinds = {}
    for l, a, b in zip(lines, o1, o2):
        k = l.split()[0]
        kinds[k] = kinds.get(k, 0) + 1
        if k == "kkd":
            # the number of visited nodes depends on the (unspecified) nth_element order: compare distances only
            pa, pb = parse_answer(a), parse_answer(b)
            if pa[0] == "ok" and pb[0] == "ok":
                a2 = "ok 2 %s %s" % (fhex(pa[1][0]), fhex(pa[1][1])); b2 = "ok 2 %s %s" % (fhex(pb[1][0]), fhex(pb[1][1]))
                d = corr.compare_answers(a2, b2, st)
            else:
                d = corr.compare_answers(a, b, st)
        else:
            d = corr.compare_answers(a, b, st, rel=1e-9 if k != "kbez" else 1e-6)
        if d:
            mism.append({"what": "%s: %s" % (k, d), "cmd": l[:300], "impl": a[:300], "model": b[:300], "scope": "kernel " + k})
    return {"summary": {"cases": len(lines), "mismatches": len(mism), "nontrivial": len(lines), "values_compared": st.values, "bit_identical": st.bit_identical,
                        "bit_identical_share": round(st.bit_identical / max(1, st.values), 6), "kernels": kinds, "exhaustive": exhaustive},
            "mismatches": mism[:30], "samples": [{"cmd": lines[i][:200], "impl": o1[i][:120]} for i in (0, len(lines) // 2, len(lines) - 1) if i < len(o1)]}


def haversine(r, lo1, la1, lo2, la2):
    h = math.sin((la2 - la1) / 2) ** 2 + math.cos(la1) * math.cos(la2) * math.sin((lo2 - lo1) / 2) ** 2
    return 2 * r * math.asin(min(1.0, math.sqrt(h)))


def oracle(seed, tier):
    rng = random.Random(seed * 6151 + 19)
    viol, cases, samples = [], 0, []
    lines, meta = [], []
    for _ in range(budget(tier, 400, 4000)):
        n = rng.randint(1, 30)
        lat = rng.random() < 0.4
        pts = [(rng.randint(0, 6), rng.randint(0, 6)) if lat else (rng.uniform(-1e6, 1e6), rng.uniform(-1e6, 1e6)) for _ in range(n)]
        q = (rng.randint(-1, 7) + rng.choice([0, 0.5]), rng.randint(-1, 7)) if lat else (rng.uniform(-1.2e6, 1.2e6), rng.uniform(-1.2e6, 1.2e6))
        lines.append("kkd %d %s %s" % (n, hx([v for p in pts for v in p]), hx(q)))
        meta.append(("kd", min(math.sqrt((p[0] - q[0]) ** 2 + (p[1] - q[1]) ** 2) for p in pts)))
    for _ in range(budget(tier, 150, 1500)):
        poly = lattice_polygon(rng, rng.choice([3, 4, 6]))
        # ten random points of the doubled lattice, plus every vertex and every edge midpoint (the boundary is part of the statement)
        boundary = [(Fraction(v[0]), Fraction(v[1])) for v in poly] + [(Fraction(poly[i][0] + poly[(i + 1) % len(poly)][0], 2), Fraction(poly[i][1] + poly[(i + 1) % len(poly)][1], 2)) for i in range(len(poly))]
        for q in rng.sample([(Fraction(i, 2), Fraction(j, 2)) for i in range(-14, 15) for j in range(-14, 15)], 10) + boundary:
            lines.append("kpoly 0 %d %s %s" % (len(poly), hx([v for p in poly for v in p]), hx([float(q[0]), float(q[1])])))
            meta.append(("poly", exact_inside(poly, q)[0], poly, q))
    for _ in range(budget(tier, 200, 2000)):
        sph = rng.random() < 0.5
        pts, step = any_polyline(rng, sph)
        i = rng.randrange(len(pts) - 1)
        t = rng.uniform(0.05, 0.95)
        off = rng.uniform(-1.5, 1.5) * step
        bx, by = pts[i][0] + t * (pts[i + 1][0] - pts[i][0]), pts[i][1] + t * (pts[i + 1][1] - pts[i][1])
        nx, ny = -(pts[i + 1][1] - pts[i][1]), pts[i + 1][0] - pts[i][0]
        nn = math.hypot(nx, ny) or 1
        q = (bx + off * nx / nn, by + off * ny / nn)
        args = "%d %d %s %s" % (int(sph), len(pts), hx([v for p in pts for v in p]), hx(q))
        lines.append("kbez " + args); meta.append(("bez", sph, pts, q, step))
        lines.append("kbezsample " + args + " 400"); meta.append(("bezs",))
        # the curve passes through its coordinates: closest point to a coordinate is that coordinate
        k = rng.randrange(len(pts))
        lines.append("kbez %d %d %s %s" % (int(sph), len(pts), hx([v for p in pts for v in p]), hx(pts[k]))); meta.append(("bezv", sph, pts, k, step))
    for _ in range(budget(tier, 300, 3000)):
        p = [rng.uniform(-7e6, 7e6) for _ in range(3)]
        if rng.random() < 0.1: p[0] = p[1] = 0.0
        lines.append("kconv %s" % hx(p)); meta.append(("conv", p))
        a = [rng.choice([6371e3, 1e6]), rng.uniform(-math.pi, math.pi), rng.uniform(-1.5, 1.5), rng.uniform(-math.pi, math.pi), rng.uniform(-1.5, 1.5)]
        lines.append("kgc %s" % hx(a)); meta.append(("gc", a))
    rc, out, err = proto.run_harness(lines)
    if rc != 0 or len(out) != len(lines):
        viol.append({"what": "library crashed on a kernel call", "stderr": err[-300:], "next_cmd": lines[len(out)][:300] if len(out) < len(lines) else None})
    i = 0
    while i < len(out):
        m = meta[i]; a = parse_answer(out[i]); cases += 1
        def bad(msg):
            viol.append({"what": msg, "cmd": lines[i][:600], "answer": out[i][:300]})
        if m[0] == "kd":
            if a[0] != "ok" or not corr.close(a[1][0], m[1], 1e-12) or not corr.close(a[1][1], m[1], 1e-12):
                bad("kd-tree nearest distance %s, brute force %r" % (a[1][:2] if a[0] == "ok" else a, m[1]))
        elif m[0] == "poly":
            if a[0] != "ok" or (a[1][0] == 1.0) != m[1]:
                bad("polygon test says %s, exact test %s for %s in %s" % (a[1] if a[0] == "ok" else a, m[1], [str(c) for c in m[3]], m[2]))
        elif m[0] == "bez":
            s = parse_answer(out[i + 1])
            # a sampled minimum at an END of the curve is not a foot (the library only reports perpendicular feet, `piece + t > 0`; on the sphere the foot of a point
            # constructed over the lon/lat polyline can fall beyond the end): such a sample is not comparable
            at_end = s[0] == "ok" and ((int(s[1][1]) == 0 and s[1][2] <= 0.0025) or (int(s[1][1]) == len(m[2]) - 2 and s[1][2] >= 0.9975))
            if a[0] == "ok" and s[0] == "ok" and not math.isnan(a[1][1]):
                d = abs(a[1][0]); best = s[1][0]
                if m[1]:
                    # spherical: the library's `distance` is sqrt(hav) of its own metric; measure the reported POINT with the sampler's great-circle formula instead
                    px, py = a[1][3], a[1][4]
                    qx, qy = m[3]
                    sl, so = math.sin((py - qy) * 0.5), math.sin((px - qx) * 0.5)
                    d = 2.0 * math.asin(math.sqrt(sl * sl + so * so * math.cos(qy) * math.cos(py)))
                tol = 1e-6 * m[4] + 1e-9 * abs(best)
                if d > best + tol and not at_end:
                    if m[1] and d <= best * 2.0:
                        # spherical curves: the library minimises sin^2(dlat/2) + sin^2(dlon/2) cos(lat_q) cos(dlat) — cos of the latitude DIFFERENCE where the haversine
                        # has cos(lat_curve) — so its foot is not the great-circle closest point (recorded known finding); a reported point more than twice as far as the best sample is something else
                        if d > best * (1 + 1e-3):
                            viol.append({"what": "spherical trench curve: the reported closest point is at great-circle distance %r, a sampled curve point at %r (%.3g %% closer; piece %d, t=%r)" % (
                                d, best, 100 * (d - best) / best, int(s[1][1]), s[1][2]), "cmd": lines[i][:600], "answer": out[i][:300], "probe": "spherical-closest-point-metric"})
                        i += 1
                        continue
                    bad("closest point at distance %r but a sampled curve point is at %r (piece %d, t=%r)" % (d, best, int(s[1][1]), s[1][2]))
            elif a[0] != "ok":
                bad("closest point failed: %s" % (a,))
            elif math.isnan(a[1][1]) and s[0] == "ok" and not at_end and m[1] and (s[1][2] < 0.05 or s[1][2] > 0.95):
                # spherical, sampled minimum within 5 % of a piece end: in the library's own metric (see above) the minimum can lie beyond the end of the curve
                viol.append({"what": "spherical trench curve: no closest point reported although a sampled curve point at t=%r of piece %d is a local minimum of the great-circle distance (%r)" % (
                    s[1][2], int(s[1][1]), s[1][0]), "cmd": lines[i][:600], "answer": out[i][:300], "probe": "spherical-closest-point-metric"})
            elif math.isnan(a[1][1]) and s[0] == "ok" and not at_end:
                # no acceptable foot although the query was constructed with its foot inside the curve
                bad("no closest point reported for a point whose foot lies inside the curve (nearest sample at %r)" % s[1][0])
        elif m[0] == "bezv":
            # the first coordinate is not an admissible foot (`piece + t > 0`), nor is the last one of a single-piece curve (`t - 1 < piece`): the closest-point
            # routine cannot be used to probe those two; the curve passing through them is the theorem C19_bezier_* / the `kbezsample` end points
            probeable = m[3] != 0 and not (len(m[2]) == 2 and m[3] == 1)
            if a[0] == "ok" and not math.isnan(a[1][1]) and probeable:
                if abs(a[1][0]) > 1e-6 * m[4]:
                    bad("curve does not pass through coordinate %d: distance %r" % (m[3], a[1][0]))
        elif m[0] == "conv":
            p = m[1]
            if a[0] != "ok" or any(abs(x - y) > 1e-9 * (1 + max(abs(v) for v in p)) for x, y in zip(a[1][3:], p)):
                bad("round trip of %r gives %r" % (p, a[1][3:] if a[0] == "ok" else a))
        elif m[0] == "gc":
            exp = haversine(*m[1])
            if a[0] != "ok" or abs(a[1][0] - exp) > 1e-7 * m[1][0]:
                bad("same-depth distance %r, great-circle distance %r" % (a[1][0] if a[0] == "ok" else a, exp))
        if len(samples) < 4 and m[0] in ("kd", "gc", "bez") and cases % 97 == 0:
            samples.append({"cmd": lines[i][:160], "answer": out[i][:100]})
        i += 1
    return {"violations": trim_violations(viol, 20), "summary": {"cases": cases, "violations": len(viol), "nontrivial": cases}, "samples": samples or [{"cmd": lines[0][:160], "answer": out[0][:100] if out else None}]}


def replay(rp):
    v = rp["violation"]
    rc, out, err = proto.run_harness([v["cmd"]])
    print("\n".join(out))
    return False
