"""C04 — area features and plumes occupy exactly their declared footprint and depth range."""
import json, math, os, random
from fractions import Fraction
from common import *

LEVEL = "proof"
RULE = ("correspondence: worlds of area features and plumes (model vs library, bit for bit). oracle (library only): (a) simple lattice polygons (3-8 vertices on an integer lattice, "
        "both orientations, concave included; Cartesian) x all points of the doubled lattice around them, membership compared with an independent exact rational "
        "even-odd + on-segment test, depth tested at min, max, min-1/2, max+1/2 (closed interval); (b) the same footprints with affine value-at-points depth surfaces, "
        "depths a relative 1e-9 away from the affine surface; (c) spherical footprints incl. ones straddling the +-180 meridian, points away from edges, longitudes described in "
        "[-180,180] and shifted by +-360; (d) plumes against the statement's interpolated ellipse / half-ellipsoid away from the boundary. non-trivial = point inside or on the boundary.")
TRUSTED_BASE = ["the identification of the crossing-sum winding number with the topological interior of a simple polygon (Jordan curve theorem) is not formalised",
                "the oracle's exact rational polygon test (tools/props/prop_C04.py)"]
ASSUMPTIONS = ["Separated (tolerances do not fire spuriously) is a hypothesis of the exact-arithmetic theorem; it is proved for integer coordinates"]


def correspondence(seed, tier):
    rs = [corr.run_corr(seed * 1000 + 40 + k, "C04_%d" % k, budget(tier, 30, 300), 30,
                        {"with_random": False, "max_features": 1, "allow": ["continental plate", "oceanic plate", "mantle layer", "plume"]}) for k in range(budget(tier, 1, 3))]
    return summarize_corr(rs)


def on_segment(a, b, p):
    cr = (b[0] - a[0]) * (p[1] - a[1]) - (p[0] - a[0]) * (b[1] - a[1])
    if cr != 0:
        return False
    dot = (p[0] - a[0]) * (b[0] - a[0]) + (p[1] - a[1]) * (b[1] - a[1])
    return 0 <= dot <= (b[0] - a[0]) ** 2 + (b[1] - a[1]) ** 2


def exact_inside(poly, p):
    """closed simple polygon, exact rational arithmetic: boundary or odd number of crossings of the ray to +x"""
    n = len(poly)
    inside = False
    for i in range(n):
        a, b = poly[i - 1], poly[i]
        if on_segment(a, b, p):
            return True, True
        if (a[1] > p[1]) != (b[1] > p[1]):
            x = a[0] + Fraction(p[1] - a[1]) * (b[0] - a[0]) / (b[1] - a[1])
            if x > p[0]:
                inside = not inside
    return inside, False


def segments_cross(a, b, c, d):
    def orient(p, q, r):
        v = (q[0] - p[0]) * (r[1] - p[1]) - (q[1] - p[1]) * (r[0] - p[0])
        return (v > 0) - (v < 0)
    o1, o2, o3, o4 = orient(a, b, c), orient(a, b, d), orient(c, d, a), orient(c, d, b)
    if o1 != o2 and o3 != o4:
        return True
    return any(on_segment(*t) for t in ((a, b, c), (a, b, d), (c, d, a), (c, d, b)))


def is_simple(poly):
    n = len(poly)
    if len(set(map(tuple, poly))) != n:
        return False
    for i in range(n):
        for j in range(i + 1, n):
            if j == i + 1 or (i == 0 and j == n - 1):
                # adjacent edges may only share their common vertex
                a, b, c, d = poly[i - 1], poly[i], poly[j - 1], poly[j]
                shared = b if j == i + 1 else a
                other1 = a if j == i + 1 else b
                other2 = d if j == i + 1 else c
                if on_segment(shared, other1, other2) or on_segment(shared, other2, other1):
                    return False
                continue
            if segments_cross(poly[i - 1], poly[i], poly[j - 1], poly[j]):
                return False
    return True


def lattice_polygon(rng, size):
    while True:
        n = rng.choice([3, 4, 4, 5, 6, 8])
        angs = sorted(rng.uniform(0, 2 * math.pi) for _ in range(n))
        pts = [[round(size * rng.uniform(0.3, 1) * math.cos(a)), round(size * rng.uniform(0.3, 1) * math.sin(a))] for a in angs]
        if rng.random() < 0.5:
            pts.reverse()
        if is_simple(pts):
            return pts


def oracle(seed, tier):
    rng = random.Random(seed * 32452843 + 4)
    wdir = proto.workdir("C04_oracle")
    viol, cases, nontriv, samples = [], 0, 0, []
    kinds = ["continental plate", "oceanic plate", "mantle layer"]
    # ---- (a) + (b): lattice polygons, Cartesian
    for wi in range(budget(tier, 24, 240)):
        size = rng.choice([3, 4, 6])
        poly = lattice_polygon(rng, size)
        scale = rng.choice([1, 1000, 25000])
        off = [rng.choice([0, 7, -3]) * scale, rng.choice([0, -5, 2]) * scale]
        if (wi // 3) % 4 != 0:
            # value-at-points surfaces: keep every coordinate non-zero (a listed point on a corner with a zero coordinate is the
            # recorded finding C11/approx(0,0); it has its own probe below)
            off = [13 * scale, -17 * scale]
        # every (feature kind x which depth surface is variable) combination is visited in turn
        kind = kinds[wi % 3]
        mind, maxd = rng.choice([0, 10e3, 30e3]), rng.choice([100e3, 150e3])
        combo = ["const", "min", "max", "both"][(wi // 3) % 4]
        variable = combo != "const"
        f = {"model": kind, "name": "f", "coordinates": [[p[0] * scale + off[0], p[1] * scale + off[1]] for p in poly],
             "composition models": [{"model": "uniform", "compositions": [0]}]}
        aff = None
        if variable:
            # affine depth surfaces sampled at every corner (and one interior lattice point): a + bx*x + by*y with small integer slopes
            which = combo
            aff = {}
            for key, base in (("min", mind), ("max", maxd)):
                if which in (key, "both"):
                    bx, by = rng.choice([-500, 0, 250, 1000]), rng.choice([-250, 0, 500])
                    aff[key] = (base, bx, by)
                    val = lambda p, base=base, bx=bx, by=by: base + bx * p[0] + by * p[1]
                    groups = [[val(p), [[p[0] * scale + off[0], p[1] * scale + off[1]]]] for p in poly]
                    f[key + " depth"] = groups
                else:
                    f[key + " depth"] = base
        else:
            f["min depth"], f["max depth"] = mind, maxd
        w = {"version": "1.1", "features": [f]}
        path = os.path.join(wdir, "a_%d.wb" % wi)
        json.dump(w, open(path, "w"))
        lines, meta = ["world w %s -" % path], [None]
        pts = [(Fraction(i, 2), Fraction(j, 2)) for i in range(-2 * size - 2, 2 * size + 3) for j in range(-2 * size - 2, 2 * size + 3)]
        if tier != "thorough":
            pts = rng.sample(pts, min(len(pts), 90))
            # the boundary is always probed: every vertex and every edge midpoint (both lie on the doubled lattice)
            extra = [(Fraction(v[0]), Fraction(v[1])) for v in poly] + [(Fraction(poly[i][0] + poly[(i + 1) % len(poly)][0], 2), Fraction(poly[i][1] + poly[(i + 1) % len(poly)][1], 2)) for i in range(len(poly))]
            pts = pts + [e for e in extra if e not in pts]
        for p in pts:
            ins, onb = exact_inside(poly, p)
            x, y = float(p[0]) * scale + off[0], float(p[1]) * scale + off[1]
            def local(key, base):
                if aff and key in aff:
                    b0, bx, by = aff[key]
                    return b0 + bx * float(p[0]) + by * float(p[1])
                return base
            lo, hi = local("min", mind), local("max", maxd)
            if variable:
                depths = [(lo * (1 + 1e-9) + 1e-3, True), (hi * (1 - 1e-9) - 1e-3, True), (lo * (1 - 1e-9) - 1e-3, False), (hi * (1 + 1e-9) + 1e-3, False), ((lo + hi) / 2, True)]
                if not ins or onb:
                    depths = [((lo + hi) / 2, True)] if not onb else []
            else:
                depths = [(lo, True), (hi, True), (lo - 0.5, False), (hi + 0.5, False), ((lo + hi) / 2, True)]
            for d, din in depths:
                if lo > hi:
                    continue
                lines.append(q3("w", [x, y, 1000e3 - d], d, [(4, 0, 0)]))
                meta.append((p, d, ins and din, onb))
        rc, out, err = proto.run_harness(lines)
        if rc != 0 or len(out) != len(lines):
            viol.append({"what": "library crashed", "world_json": w}); continue
        for i, m in enumerate(meta):
            if m is None:
                continue
            a = parse_answer(out[i])
            if a[0] != "ok":
                viol.append({"what": "query failed: " + out[i][:100], "world_json": w, "cmd": lines[i]}); continue
            cases += 1
            got = a[1][0] != -1.0
            if m[2]:
                nontriv += 1
            if got != m[2]:
                viol.append({"what": "point %s depth %r: library says %s, exact test says %s (%s, depth surfaces %s)" % ([str(c) for c in m[0]], m[1], got, m[2], "on the boundary" if m[3] else "off the boundary", "affine value-at-points" if variable else "constant"),
                             "world_json": w, "cmd": lines[i], "polygon": poly, "kind": kind})
        if len(samples) < 2:
            samples.append({"polygon": poly, "scale": scale, "kind": kind, "points": len(meta) - 1, "variable_depth": variable})
    # ---- (e) probe of the recorded finding: a value listed at a corner that has a zero coordinate does not replace the corner's default
    f = {"model": "continental plate", "name": "f", "coordinates": [[0, 0], [100e3, 0], [100e3, 100e3], [0, 100e3]],
         "min depth": [[50e3, [[0, 0]]], [50e3, [[100e3, 0]]], [50e3, [[100e3, 100e3]]], [50e3, [[0, 100e3]]]], "max depth": 200e3,
         "composition models": [{"model": "uniform", "compositions": [0]}]}
    w = {"version": "1.1", "features": [f]}
    path = os.path.join(wdir, "e_0.wb")
    json.dump(w, open(path, "w"))
    lines = ["world w %s -" % path] + [q3("w", [x, y, 1000e3 - 25e3], 25e3, [(4, 0, 0)]) for (x, y) in ((50e3, 50e3), (10e3, 10e3), (90e3, 10e3), (10e3, 90e3))]
    rc, out, err = proto.run_harness(lines)
    for i in range(1, len(out)):
        a = parse_answer(out[i])
        cases += 1
        if a[0] == "ok" and a[1][0] != -1.0:
            viol.append({"what": "min depth listed as 50 km at all four corners (one corner has a zero coordinate): depth 25 km is reported inside the feature",
                         "world_json": w, "cmd": lines[i], "probe": "listed-value-at-corner-with-zero-coordinate"})
            break
    # ---- (c) spherical footprints incl. dateline straddling
    for wi in range(budget(tier, 8, 80)):
        lon0 = rng.choice([170, 175, -178, 150, 0, -100, 179.5])
        w_, h_ = rng.choice([10, 20, 30]), rng.choice([10, 20])
        lat0 = rng.choice([-40, 0, 20, 50])
        shift = rng.choice([0, 0, -360, 360]) if -360 <= lon0 - 360 and lon0 + w_ + 360 <= 360 else 0
        rect = [[lon0, lat0], [lon0 + w_, lat0], [lon0 + w_, lat0 + h_], [lon0, lat0 + h_]]
        if any(abs(p[0] + shift) > 360 for p in rect):
            shift = 0
        coords = [[p[0] + shift, p[1]] for p in rect]
        if rng.random() < 0.5:
            coords.reverse()
        kind = rng.choice(kinds)
        f = {"model": kind, "name": "f", "coordinates": coords, "min depth": 0, "max depth": 100e3, "composition models": [{"model": "uniform", "compositions": [0]}]}
        w = {"version": "1.1", "coordinate system": {"model": "spherical", "depth method": "begin segment"}, "features": [f]}
        path = os.path.join(wdir, "c_%d.wb" % wi)
        json.dump(w, open(path, "w"))
        lines, meta = ["world w %s -" % path], [None]
        R0 = 6371000.0
        for _ in range(budget(tier, 40, 120)):
            lon = lon0 + rng.uniform(-0.6, 1.6) * w_
            lat = lat0 + rng.uniform(-0.6, 1.6) * h_
            if abs(lat) > 89:
                continue
            margin = 1e-6
            dx = min(abs(lon - lon0), abs(lon - lon0 - w_)); dy = min(abs(lat - lat0), abs(lat - lat0 - h_))
            if dx < margin or dy < margin:
                continue
            inside = lon0 < lon < lon0 + w_ and lat0 < lat < lat0 + h_
            lonq = ((lon + 180) % 360) - 180          # the query point is described with a longitude in [-180, 180)
            d = 50e3
            rr = R0 - d
            lo, la = math.radians(lonq), math.radians(lat)
            p3 = [rr * math.cos(la) * math.cos(lo), rr * math.cos(la) * math.sin(lo), rr * math.sin(la)]
            lines.append(q3("w", p3, d, [(4, 0, 0)])); meta.append((lon, lat, inside))
        rc, out, err = proto.run_harness(lines)
        if rc != 0 or len(out) != len(lines):
            viol.append({"what": "library crashed", "world_json": w}); continue
        for i, m in enumerate(meta):
            if m is None:
                continue
            a = parse_answer(out[i])
            cases += 1
            got = a[0] == "ok" and a[1][0] != -1.0
            if m[2]:
                nontriv += 1
            if got != m[2]:
                viol.append({"what": "spherical footprint: lon %r lat %r: library %s, expected %s (coordinates %s)" % (m[0], m[1], got, m[2], coords), "world_json": w, "cmd": lines[i]})
    # ---- (d) plumes against the statement
    for wi in range(budget(tier, 10, 100)):
        n = rng.choice([1, 2, 3])
        depths = sorted(rng.sample([100e3, 200e3, 300e3, 450e3, 600e3], n))
        # every other world is spherical: centres in degrees, possibly written beyond +-180 or next to the date line (the library must use the description of the query
        # longitude closest to the centre, in the body AND in the head above the first cross section); semi-major axes in degrees
        sph = wi % 2 == 1
        if sph:
            lon0, lat0 = rng.choice([10, 179.5, -179.75, 200, -340, -181, 355, -90]), rng.choice([0, 20, -35])
            cen = [[lon0 + rng.choice([0, 0.5, -0.3]), lat0 + rng.choice([0, 0.2, -0.6])] for _ in depths]
            sma = [rng.choice([0.5, 0.8, 1.2]) for _ in depths]
        else:
            cen = [[rng.choice([0, 50e3, -30e3]), rng.choice([0, 20e3, -60e3])] for _ in depths]
            sma = [rng.choice([50e3, 80e3, 120e3]) for _ in depths]
        ecc = [rng.choice([0, 0.5, 0.75]) for _ in depths]
        rot = [rng.choice([0, 30, 90, 170, 350]) for _ in depths]
        mind, maxd = rng.choice([0, 20e3, 50e3]), rng.choice([700e3, 800e3])
        f = {"model": "plume", "name": "p", "coordinates": cen, "cross section depths": depths, "semi-major axis": sma, "eccentricity": ecc, "rotation angles": rot,
             "min depth": mind, "max depth": maxd, "composition models": [{"model": "uniform", "compositions": [0]}]}
        w = {"version": "1.1", "features": [f]}
        if sph:
            w["coordinate system"] = {"model": "spherical", "depth method": "starting point"}
        path = os.path.join(wdir, "d_%d.wb" % wi)
        json.dump(w, open(path, "w"))
        lines, meta = ["world w %s -" % path], [None]
        rots = [math.pi / 2 - a * math.pi / 180 for a in rot]
        def ellipse_at(d):
            if d >= depths[-1]:
                return cen[-1], sma[-1], ecc[-1], rots[-1], None
            if d < depths[0]:
                return cen[0], sma[0], ecc[0], rots[0], "tip"
            k = max(i for i in range(n) if depths[i] <= d)
            fr = (d - depths[k]) / (depths[k + 1] - depths[k])
            t1, t2 = rots[k], rots[k + 1]
            if abs(t2 - t1) > math.pi:
                if t2 > t1: t1 += 2 * math.pi
                else: t2 += 2 * math.pi
            th = (1 - fr) * t1 + fr * t2
            return ([(1 - fr) * cen[k][0] + fr * cen[k + 1][0], (1 - fr) * cen[k][1] + fr * cen[k + 1][1]],
                    (1 - fr) * sma[k] + fr * sma[k + 1], (1 - fr) * ecc[k] + fr * ecc[k + 1], th, None)
        for _ in range(budget(tier, 60, 150)):
            d = rng.choice([rng.uniform(mind - 10e3, maxd + 10e3), rng.choice(depths), mind, maxd, mind + 1e3, rng.uniform(mind, depths[0]), rng.uniform(mind, depths[0])])
            c, a, e, th, tip = ellipse_at(d)
            if sph:
                x, y = cen[0][0] + rng.uniform(-2, 2), cen[0][1] + rng.uniform(-2, 2)
                dx = (x - c[0] + 180.0) % 360.0 - 180.0            # the same point of the sphere whatever alias the centre was written in
            else:
                x, y = rng.uniform(-200e3, 200e3), rng.uniform(-200e3, 200e3)
                dx = x - c[0]
            xr = dx * math.cos(th) + (y - c[1]) * math.sin(th)
            yr = -dx * math.sin(th) + (y - c[1]) * math.cos(th)
            b = a * math.sqrt(1 - e * e)
            if tip:
                cc = depths[0] - mind
                val = xr * xr / (a * a) + yr * yr / (b * b) + ((depths[0] - d) ** 2) / (cc * cc) if cc > 0 else 2.0
            else:
                val = xr * xr / (a * a) + yr * yr / (b * b)
            if abs(val - 1) < 1e-6 or abs(d - mind) < 1e-3 and d != mind or abs(d - maxd) < 1e-3 and d != maxd:
                continue
            exp = mind <= d <= maxd and val <= 1
            if sph:
                rr = 6371000.0 - d
                lo_, la_ = math.radians(x), math.radians(y)
                cl_ = rr * math.sin(0.5 * math.pi - la_)
                p3 = [cl_ * math.cos(lo_), cl_ * math.sin(lo_), rr * math.cos(0.5 * math.pi - la_)]
            else:
                p3 = [x, y, 1000e3 - d]
            lines.append(q3("w", p3, d, [(4, 0, 0)])); meta.append((x, y, d, exp))
        rc, out, err = proto.run_harness(lines)
        if rc != 0 or len(out) != len(lines):
            viol.append({"what": "library crashed", "world_json": w}); continue
        for i, m in enumerate(meta):
            if m is None:
                continue
            a = parse_answer(out[i])
            cases += 1
            got = a[0] == "ok" and a[1][0] != -1.0
            if m[3]:
                nontriv += 1
            if got != m[3]:
                viol.append({"what": "plume: point (%r,%r) depth %r: library %s, statement %s" % (m[0], m[1], m[2], got, m[3]), "world_json": w, "cmd": lines[i]})
    return {"violations": trim_violations(viol, 20), "summary": {"cases": cases, "violations": len(viol), "nontrivial": nontriv}, "samples": samples}


def replay(rp):
    v = rp["violation"]
    wdir = proto.workdir("C04_replay")
    path = os.path.join(wdir, "replay.wb")
    json.dump(v["world_json"], open(path, "w"))
    w = v["cmd"].split(); w[1] = "r"
    rc, out, err = proto.run_harness(["world r %s -" % path, " ".join(w)])
    print("\n".join(out))
    return False
