"""C13 — queries on a built world are total and return finite numbers."""
import copy, json, math, os, random, subprocess
from common import *
import build_repo
import prop_C12

LEVEL = "proof"
RULE = ("generated worlds of every feature kind (depth surfaces, ridge models, curved and straight slabs/faults, plumes, random models) queried at the degenerate locations the property names: "
        "polygon vertices and edge points, trench coordinates and points of the trench line at the feature's min depth / depth 0, points along the dip direction up to and beyond the slab tip, "
        "depth 0, exactly min/max depth, negative depth, the poles, the +-180 meridian, the planet's centre, the origin, far-away points (1e9 m); through properties (3-D and 2-D), temperature, "
        "composition, grains and distance_to_plane. oracle on the library built with AddressSanitizer+UBSan: the process must survive, every answer is either values that are all finite or a "
        "std::exception. A catalogue of worlds with degenerate PARAMETERS (zero ranges, zero widths, zero conductivities ...) is probed as well. correspondence: the Lean model vs the library "
        "on the same degenerate queries, bit for bit. non-trivial = a query inside at least one feature or at a named degenerate location.")
TRUSTED_BASE = ["finiteness in IEEE arithmetic (overflow, NaN propagation), memory safety and termination of the C++ binary are explored under sanitizers, not proved; the theorems say that on a WellFormed "
                "world no model function indexes out of range (C13_*_no_internal, for every scalar type), that every loop of the model is fuel- or structurally bounded, and that the guarded divisions "
                "have non-zero denominators over an ordered field (C13_segment_divisors, C13_table_fraction_divisor_pos, C13_initialEstimate_divisor)"]
ASSUMPTIONS = ["'any finite point' is explored up to coordinates of 1e9 m; coordinates near DBL_MAX (where x*x overflows) are not generated",
               "a hang is a harness process busy for more than 120 s + 2 s per command"]


def special_positions(g, w, rng):
    pos = []          # (tag, surface position)
    for f in w["features"]:
        cs = f["coordinates"]
        kind = f["model"]
        for i, p in enumerate(cs):
            pos.append((kind + ":vertex", list(p)))
            q = cs[(i + 1) % len(cs)]
            for t in (0.5, 0.25, rng.random()):
                pos.append((kind + ":edge", [p[0] + t * (q[0] - p[0]), p[1] + t * (q[1] - p[1])]))
        if kind in ("subducting plate", "fault"):
            dp = f["dip point"]
            m = cs[len(cs) // 2]
            for u in (0.01, 0.1, 0.3, 0.6, 1.0, 1.5, -0.05):
                pos.append((kind + ":dip-direction", [m[0] + u * (dp[0] - m[0]), m[1] + u * (dp[1] - m[1])]))
            pos.append((kind + ":dip-point", list(dp)))
        for key in ("min depth", "max depth"):
            v = f.get(key)
            if isinstance(v, list):
                for it in v:
                    if isinstance(it, list) and len(it) > 1:
                        pos.extend((kind + ":depth-node", list(p)) for p in it[1])
        # ridge coordinates and exactly representable points of ridge segments (age zero)
        for m in f.get("temperature models", []) or []:
            for ridge in m.get("ridge coordinates", []) or []:
                for i, p in enumerate(ridge):
                    pos.append(("ridge:vertex", list(p)))
                    if i + 1 < len(ridge):
                        q = ridge[i + 1]
                        for t in (0.5, 0.25, 0.75):
                            pos.append(("ridge:segment", [p[0] + t * (q[0] - p[0]), p[1] + t * (q[1] - p[1])]))
    if g.spherical:
        pos += [("north-pole", [0, 90]), ("south-pole", [0, -90]), ("north-pole", [77, 90]), ("meridian+180", [180, rng.uniform(-80, 80)]), ("meridian-180", [-180, rng.uniform(-80, 80)]),
                ("meridian+180", [180, 0]), ("equator-0", [0, 0])]
    else:
        pos += [("origin", [0, 0]), ("far", [1e9, -1e9]), ("far", [0, 1e9])]
    return pos


def special_depths(g, w):
    ds = [0.0, -0.0, -1000.0, 1e-9, 1.0]
    for f in w["features"]:
        for key in ("min depth", "max depth"):
            v = f.get(key)
            if isinstance(v, (int, float)):
                ds.append(float(v))
            elif isinstance(v, list):
                ds += [float(it[0]) for it in v if isinstance(it, list) and it]
        ds += [float(d) for d in f.get("cross section depths", [])]
        for seg in f.get("segments", []) or []:
            ds.append(float(seg["length"]))
    return ds


class RidgeWorld:
    """structured world: an oceanic plate with a ridge-based cooling model (age zero on the ridge), `force surface temperature` off"""
    def __init__(self, rng, spherical, model):
        self.spherical = spherical
        self.radius = 6371000
        self.rng = rng
        sc = 1.0 if spherical else 20e3
        x0, y0 = (rng.choice([-170, 10, 150]), rng.choice([-20, 10])) if spherical else (rng.choice([-400e3, 0]), rng.choice([0, 100e3]))
        box = [[x0, y0], [x0 + 30 * sc, y0], [x0 + 30 * sc, y0 + 30 * sc], [x0, y0 + 30 * sc]]
        ridge = [[x0 + 8 * sc, y0 + 2 * sc], [x0 + 12 * sc, y0 + 16 * sc], [x0 + 20 * sc, y0 + 28 * sc]][:rng.choice([2, 3])]
        m = {"model": model, "min depth": 0, "max depth": 100e3, "top temperature": 273, "bottom temperature": rng.choice([1573, -1]), "ridge coordinates": [ridge],
             "spreading velocity": rng.choice([0.05, [[0, [[0.02 + 0.01 * j for j in range(len(ridge))]]]]])}
        self.w = {"version": "1.1", "force surface temperature": False, "features": [{"model": "oceanic plate", "name": "o", "coordinates": box, "max depth": 200e3, "temperature models": [m]}]}
        if spherical:
            self.w["coordinate system"] = {"model": "spherical", "depth method": "starting point"}
    def world(self):
        return self.w
    def point3(self, sp, depth):
        if self.spherical:
            rr = self.radius - depth
            lon, lat = math.radians(sp[0]), math.radians(sp[1])
            cl = rr * math.sin(0.5 * math.pi - lat)
            return [cl * math.cos(lon), cl * math.sin(lon), rr * math.cos(0.5 * math.pi - lat)]
        return [sp[0], sp[1], 1000e3 - depth]
    def props(self):
        return self.rng.choice([[(1, 0, 0)], [(1, 0, 0), (4, 0, 0)], [(2, 0, 0), (1, 0, 0), (5, 0, 0)]])
    def queries2d(self, w, n):
        return []


class SlabSplineWorld(RidgeWorld):
    """structured world: a slab with the mass conserving temperature (spline on or off, few spline points) and a negative top truncation under a cold overriding plate,
    next to the oceanic plate it comes from; probed densely through the fore-arc and along the slab"""
    def __init__(self, rng):
        self.spherical = False
        self.radius = 6371000
        self.rng = rng
        x1 = rng.choice([1000e3, 1500e3])
        trunc = -rng.choice([40e3, 60e3, 100e3])
        th = rng.choice([100e3, 150e3])
        over = {"model": rng.choice(["continental plate", "oceanic plate"]), "name": "overriding", "min depth": 0, "max depth": rng.choice([80e3, 120e3]),
                "coordinates": [[x1, -500e3], [x1, 500e3], [x1 + 1500e3, 500e3], [x1 + 1500e3, -500e3]],
                "temperature models": [rng.choice([{"model": "linear", "max depth": 120e3, "top temperature": 273, "bottom temperature": -1}, {"model": "uniform", "temperature": 273},
                                                   {"model": "linear", "max depth": 120e3, "top temperature": 273, "bottom temperature": 273}])]}
        mc = {"model": "mass conserving", "density": 3300, "thermal conductivity": 3.3, "adiabatic heating": rng.random() < 0.7, "spreading velocity": 0.05, "subducting velocity": rng.choice([0.05, 0.02]),
              "ridge coordinates": [[[0, -500e3], [0, 500e3]]], "coupling depth": rng.choice([80e3, 100e3]), "taper distance": rng.choice([50e3, 100e3]),
              "min distance slab top": trunc, "max distance slab top": th, "reference model name": rng.choice(["half space model", "plate model"]),
              "apply spline": rng.random() < 0.8, "number of points in spline": rng.choice([3, 5, 5, 8, 15])}
        a1 = rng.choice([30, 45, 60])
        slab = {"model": "subducting plate", "name": "slab", "coordinates": [[x1, -500e3], [x1, 500e3]], "dip point": [x1 + 1500e3, 0],
                "segments": [{"length": 300e3, "thickness": [th], "top truncation": [trunc], "angle": [0, a1]}, {"length": 400e3, "thickness": [th], "top truncation": [trunc], "angle": [a1, a1]}],
                "temperature models": [mc]}
        sea = {"model": "oceanic plate", "name": "incoming", "min depth": 0, "max depth": 100e3, "coordinates": [[0, -500e3], [0, 500e3], [x1, 500e3], [x1, -500e3]],
               "temperature models": [{"model": "plate model", "max depth": 100e3, "spreading velocity": 0.05, "ridge coordinates": [[[0, -500e3], [0, 500e3]]]}]}
        self.x1 = x1
        self.w = {"version": "1.1", "surface temperature": 273, "force surface temperature": rng.random() < 0.3, "potential mantle temperature": 1673, "features": [sea, over, slab]}
    def dense(self):
        r = self.rng
        out = []
        for k in range(48):
            x = self.x1 + (-0.2 + 1.1 * k / 47) * 1000e3
            for d in (0.0, 5e3, 15e3, 35e3, 70e3, r.uniform(0, 500e3)):
                out.append(([x, r.choice([0.0, -250e3, 137e3])], d))
        return out


class TouchingWorld(RidgeWorld):
    """structured world: an area feature whose model's own depth interval touches the feature's interval in exactly one depth (the model starts where the feature ends, ends where
    it starts, or is itself of zero thickness), or whose local interval shrinks to zero on a polygon edge (max depth listed as 0 / equal to the min depth at two corners); probed at
    exactly those depths, inside, on the edge and at the corners.  Interval lengths that are zero are where the models divide."""
    def __init__(self, rng):
        self.spherical = False
        self.radius = 6371000
        self.rng = rng
        kind = rng.choice(["continental plate", "oceanic plate", "mantle layer"])
        sq = [[-200e3, -200e3], [200e3, -200e3], [200e3, 200e3], [-200e3, 200e3]]
        fmin, fmax = rng.choice([0, 20e3]), rng.choice([100e3, 150e3])
        names = ["linear", "uniform", "adiabatic"] + (["chapman"] if kind == "continental plate" else []) + (["plate model constant age"] if kind == "oceanic plate" else [])
        mname = rng.choice(names + ["linear", "linear"])
        how = rng.choice(["model-starts-at-feature-bottom", "model-ends-at-feature-top", "model-of-zero-thickness", "feature-pinches-out"])
        m = {"model": mname}
        if mname == "linear":
            m.update({"top temperature": rng.choice([273, -1]), "bottom temperature": rng.choice([1600, -1])})
        elif mname == "uniform":
            m["temperature"] = 1000
        elif mname == "plate model constant age":
            m.update({"plate age": 5e7, "top temperature": 273, "bottom temperature": 1600})
        f = {"model": kind, "name": "t", "coordinates": sq, "min depth": fmin, "max depth": fmax}
        self.depths = [fmin, fmax]
        if how == "model-starts-at-feature-bottom":
            m["min depth"] = fmax; m["max depth"] = fmax + 50e3
        elif how == "model-ends-at-feature-top":
            m["min depth"] = 0 if fmin == 0 else fmin - 10e3; m["max depth"] = fmin
        elif how == "model-of-zero-thickness":
            z = rng.choice([fmin, 50e3, fmax]); m["min depth"] = z; m["max depth"] = z; self.depths.append(z)
        else:
            # the feature's own max depth goes down to its min depth along the edge between the first two corners
            f["max depth"] = [[fmin, [sq[0], sq[1]]], [fmax, [sq[2], sq[3]]]]
            m["max depth"] = fmax
        f["temperature models"] = [m]
        lower = {"model": "mantle layer", "name": "below", "coordinates": sq, "min depth": 0, "max depth": 300e3, "temperature models": [{"model": "uniform", "temperature": 1500}]}
        self.w = {"version": "1.1", "force surface temperature": False, "features": ([lower] if rng.random() < 0.5 else []) + [f]}
        self.sq = sq
    def probes(self):
        pts = [[0.0, 0.0], [50e3, -120e3], [0.0, -200e3], [-200e3, -200e3], [200e3, -200e3], [100e3, -200e3], [200e3, 200e3], [0.0, 199999.0]]
        return [(p, d) for p in pts for d in self.depths + [0.0]]


def build_session(rng, decl, tier, wdir, name):
    lines, tags = [], []
    nw = budget(tier, 22, 250)
    structured = [(sph, model) for sph in (False, True) for model in ("half space model", "plate model")] + ["slab-spline"] * budget(tier, 3, 20) + ["touching"] * budget(tier, 10, 80)
    for wi in range(nw + len(structured)):
        if wi >= nw and structured[wi - nw] == "slab-spline":
            g = SlabSplineWorld(rng)
        elif wi >= nw and structured[wi - nw] == "touching":
            g = TouchingWorld(rng)
        elif wi >= nw:
            g = RidgeWorld(rng, *structured[wi - nw])
        elif wi % 3 == 1:
            # slabs with the slab-only temperature models (plate model, mass conserving: ridge tables, reference models, spline on/off)
            g = WorldGen(random.Random(rng.getrandbits(64)), schema=decl, with_lines=True, with_random=False, max_features=3, slab_models=0.7)
        else:
            g = WorldGen(random.Random(rng.getrandbits(64)), schema=decl, with_lines=True, with_random=(wi % 4 == 0), max_features=3)
        w = g.world()
        path = os.path.join(wdir, "%s_%d.wb" % (name, wi))
        json.dump(w, open(path, "w"))
        lines.append("world w %s 3 aux %s.aux" % (path, path))
        tags.append("world")
        pos = special_positions(g, w, rng)
        ds = special_depths(g, w)
        names = [f.get("name") for f in w["features"] if f["model"] in ("subducting plate", "fault") and f.get("name")]
        for _ in range(budget(tier, 40, 60)):
            tag, sp = rng.choice(pos)
            d = rng.choice(ds) if rng.random() < 0.75 else rng.uniform(0, 500e3)
            p3 = g.point3(sp, d)
            u = rng.random()
            if u < 0.7:
                lines.append(q3("w", p3, d, g.props()))
            elif u < 0.78:
                lines.append("t3 w %s %s" % (" ".join(fhex(v) for v in p3), fhex(d)))
            elif u < 0.86:
                lines.append("c3 w %s %s %d" % (" ".join(fhex(v) for v in p3), fhex(d), rng.randint(0, 3)))
            elif u < 0.92:
                lines.append("g3 w %s %s %d %d" % (" ".join(fhex(v) for v in p3), fhex(d), rng.randint(0, 2), rng.choice([0, 1, 3])))
            elif names:
                lines.append("dist w %s %s %s" % (rng.choice(names).replace(" ", "~"), " ".join(fhex(v) for v in p3), fhex(d)))
            else:
                lines.append(q3("w", p3, d, [(1, 0, 0), (4, 0, 0)]))
            tags.append(tag)
        if isinstance(g, TouchingWorld):
            for (sp, d) in g.probes():
                lines.append(q3("w", g.point3(sp, d), d, [(1, 0, 0), (4, 0, 0)])); tags.append("touching-intervals")
        if isinstance(g, SlabSplineWorld):
            for (sp, d) in g.dense():
                lines.append(q3("w", g.point3(sp, d), d, [(1, 0, 0), (4, 0, 0)])); tags.append("slab-spline:fore-arc")
        for (tag, sp) in [x for x in pos if x[0].startswith("ridge:")][:12]:
            for d in (0.0, 1.0):
                lines.append(q3("w", g.point3(sp, d), d, [(1, 0, 0), (4, 0, 0)])); tags.append(tag)
        # the planet's centre / far below the box
        if g.spherical:
            lines.append(q3("w", [0.0, 0.0, 0.0], float(g.radius), g.props())); tags.append("planet-centre")
            lines.append(q3("w", [0.0, 0.0, 0.0], 0.0, g.props())); tags.append("planet-centre")
        if "cross section" in w:
            for (p2, d) in g.queries2d(w, 6):
                lines.append(q2("w", p2, d, g.props())); tags.append("2d")
            lines.append(q2("w", [0.0, 0.0], 0.0, g.props())); tags.append("2d-origin")
        lines.append("free w")
        tags.append("free")
    return lines, tags


SLAB_DEGENERATE = json.load(open(os.path.join(os.path.dirname(os.path.abspath(__file__)), "c13_slab_degenerate.json")))


def degenerate_parameter_worlds():
    P, SEG = prop_C12.POLY, prop_C12.SEG
    cat = []
    def area(kind, **kw):
        f = {"model": kind, "name": "a", "coordinates": P, "max depth": 200e3}
        f.update(kw)
        return {"version": "1.1", "features": [f]}
    def slab(kind="subducting plate", **kw):
        f = {"model": kind, "name": "s", "coordinates": [[0, 0], [0, 100e3], [0, 200e3]], "dip point": [100e3, 0], "segments": [{"length": 100e3, "thickness": [50e3], "angle": [90]}]}
        f.update(kw)
        return {"version": "1.1", "features": [f]}
    def plume(**kw):
        f = {"model": "plume", "name": "p", "coordinates": [[0, 0], [10e3, 0]], "cross section depths": [100e3, 200e3], "semi-major axis": [50e3, 50e3], "eccentricity": [0, 0], "rotation angles": [0, 0],
             "min depth": 50e3, "max depth": 400e3, "temperature models": [{"model": "uniform", "temperature": 1700}]}
        f.update(kw)
        return {"version": "1.1", "features": [f]}
    cat.append(("area-linear-zero-range", area("continental plate", **{"temperature models": [{"model": "linear", "min depth": 50e3, "max depth": 50e3, "top temperature": 300, "bottom temperature": 400}]})))
    cat.append(("line-linear-zero-range", slab(**{"temperature models": [{"model": "linear", "max distance slab top": 0, "top temperature": 300, "bottom temperature": 400}]})))
    cat.append(("fault-linear-zero-range", slab("fault", **{"temperature models": [{"model": "linear", "max distance fault center": 0, "center temperature": 300, "side temperature": 400}]})))
    cat.append(("slab-smooth-zero-side", slab(**{"composition models": [{"model": "smooth", "compositions": [0], "min distance slab top": 0, "max distance slab top": 0}]})))
    cat.append(("fault-smooth-zero-side", slab("fault", **{"composition models": [{"model": "smooth", "compositions": [0], "side distance fault center": 0}]})))
    cat.append(("chapman-zero-conductivity", area("continental plate", **{"temperature models": [{"model": "chapman", "max depth": 100e3, "top temperature": 300, "surface heat flow": 0.06, "thermal conductivity": 0, "radioactive heat production": 1e-6}]})))
    cat.append(("plate-model-zero-max-depth", area("oceanic plate", **{"temperature models": [{"model": "plate model", "max depth": 0, "top temperature": 273, "bottom temperature": 1600, "spreading velocity": 0.05, "ridge coordinates": [[[0, -1e6], [0, 1e6]]]}]})))
    cat.append(("half-space-zero-velocity", area("oceanic plate", **{"temperature models": [{"model": "half space model", "max depth": 100e3, "top temperature": 273, "bottom temperature": 1600, "spreading velocity": 0, "ridge coordinates": [[[0, -1e6], [0, 1e6]]]}]})))
    cat.append(("plate-model-zero-velocity", area("oceanic plate", **{"temperature models": [{"model": "plate model", "max depth": 100e3, "top temperature": 273, "bottom temperature": 1600, "spreading velocity": 0, "ridge coordinates": [[[0, -1e6], [0, 1e6]]]}]})))
    # ridges with a segment of zero length: a point ridge, the first coordinate listed twice, an interior coordinate listed twice
    for nm, ridge in (("point", [[[20e3, 30e3], [20e3, 30e3]]]), ("first-twice", [[[20e3, -1e6], [20e3, -1e6], [20e3, 1e6]]]), ("interior-twice", [[[20e3, -1e6], [20e3, 0], [20e3, 0], [20e3, 1e6]]])):
        for model in ("plate model", "half space model"):
            cat.append(("ridge-zero-length-segment:%s:%s" % (nm, model.split()[0]),
                        area("oceanic plate", **{"temperature models": [{"model": model, "max depth": 100e3, "top temperature": 273, "bottom temperature": 1600, "spreading velocity": 0.05, "ridge coordinates": ridge}]})))
        cat.append(("ridge-zero-length-segment:%s:mass-conserving" % nm,
                    slab(**{"temperature models": [{"model": "mass conserving", "spreading velocity": 0.05, "subducting velocity": 0.05, "ridge coordinates": ridge, "density": 3300, "thermal conductivity": 3.3, "coupling depth": 80e3,
                                                    "taper distance": 100e3, "min distance slab top": -100e3, "max distance slab top": 100e3, "reference model name": "half space model"}]})))
    # slab temperature models: the unguarded divisors found by the division audit of MassConserving.get / SlabPlateModel.get (worker MT, Properties/C13Slab.lean), worlds and points as replayed
    for nm, w in SLAB_DEGENERATE["worlds"].items():
        cat.append(("slab-model:" + nm.replace("_", "-"), w))
    cat.append(("plume-zero-axis", plume(**{"semi-major axis": [0, 0]})))
    cat.append(("plume-eccentricity-one", plume(**{"eccentricity": [1, 1]})))
    cat.append(("plume-head-zero-height", plume(**{"min depth": 100e3})))
    cat.append(("grains-normalize-zero", area("continental plate", **{"grains models": [{"model": "random uniform distribution", "compositions": [0], "grain sizes": [0], "normalize grain sizes": [True]}]})))
    cat.append(("segment-zero-length", slab(segments=[{"length": 0, "thickness": [50e3], "angle": [90]}])))
    cat.append(("segment-zero-thickness", slab(segments=[{"length": 100e3, "thickness": [0], "angle": [45]}])))
    cat.append(("trench-repeated-coordinate", slab(coordinates=[[0, 0], [0, 0], [0, 100e3]])))
    cat.append(("polygon-repeated-corner", area("continental plate", coordinates=[[0, 0], [0, 0], [100e3, 0], [100e3, 100e3]], **{"temperature models": [{"model": "uniform", "temperature": 500}]})))
    cat.append(("cross-section-zero-length", dict(area("continental plate"), **{"cross section": [[0, 0], [0, 0]]})))
    cat.append(("zero-specific-heat", dict(area("continental plate"), **{"specific heat": 0})))
    cat.append(("radius-zero", {"version": "1.1", "coordinate system": {"model": "spherical", "depth method": "starting point", "radius": 0}, "features": []}))
    return cat


PARAM_PTS = [(0.0, 0.0, 0.0), (0.0, 100e3, 10e3), (0.0, 100e3, 0.0), (0.0, 0.0, 60e3), (50e3, 50e3, 50e3), (10e3, 20e3, 150e3), (0.0, 50e3, 100e3), (5e3, 0.0, 100e3), (30e3, 100e3, 30e3), (1e3, 0, 75e3), (100e3, 0, 50e3)]
PARAM_PROPS = [(1, 0, 0), (2, 0, 0), (3, 0, 2), (4, 0, 0), (5, 0, 0)]


def unbounded_linear(wj):
    """area features with a `linear` temperature model whose bottom temperature is the adiabatic sentinel and whose local bottom can be unbounded
    (no plain numeric max depth on the model or on the feature: corners that are not listed keep the default `DBL_MAX`)"""
    out = []
    for f in (wj or {}).get("features", []):
        if f.get("model") not in ("continental plate", "oceanic plate", "mantle layer"):
            continue
        for m in f.get("temperature models", []) or []:
            if m.get("model") == "linear" and m.get("bottom temperature", -1) < 0:
                plain = [v for v in (m.get("max depth"), f.get("max depth")) if isinstance(v, (int, float))]
                if not plain:
                    out.append(f.get("name"))
    return out


def unbounded_plate_models(wj):
    """(feature index, model index) of oceanic `plate model`s whose max depth is not bounded everywhere: absent, or a value-at-points list that neither has an entry without
    points (which sets every corner) nor lists every polygon corner - the remaining corners keep the default `DBL_MAX`, the plate thickness is the surface's maximum"""
    out = []
    for fi, f in enumerate((wj or {}).get("features", [])):
        if f.get("model") != "oceanic plate":
            continue
        for mi, m in enumerate(f.get("temperature models", []) or []):
            if m.get("model") in ("plate model", "plate model constant age"):
                md = m.get("max depth")
                if isinstance(md, (int, float)):
                    continue
                if isinstance(md, list):
                    if any(isinstance(e, list) and len(e) == 1 for e in md):
                        continue
                    listed = [tuple(p) for e in md if isinstance(e, list) and len(e) > 1 for p in e[1]]
                    if all(tuple(c) in listed for c in f.get("coordinates", [])):
                        continue
                out.append((fi, mi))
    return out


def unbounded_spline_models(wj):
    """mass conserving slab temperature models with the spline switched on and no `max distance slab top` (default: unbounded): the spline samples the analytic solution at
    multiples of that distance"""
    out = []
    def visit(node):
        if isinstance(node, dict):
            if node.get("model") == "mass conserving" and node.get("apply spline") is True and "max distance slab top" not in node:
                out.append(node)
            for v in node.values():
                visit(v)
        elif isinstance(node, list):
            for v in node:
                visit(v)
    visit(wj or {})
    return out


def diagnose(wj, cmd, loc):
    """name the cause of a non-finite answer where it is a recorded one; otherwise the location class"""
    if False and wj is not None and cmd.split()[0] in ("q3", "q2", "t3", "t2") and unbounded_spline_models(wj):     # such worlds are refused since upstream 7d5ade92
        w2 = copy.deepcopy(wj)
        for m in unbounded_spline_models(w2):
            m["max distance slab top"] = 200e3
        path = os.path.join(proto.workdir("C13"), "diag.wb")
        json.dump(w2, open(path, "w"))
        rc, out, err = proto.run_harness(["world w %s 3" % path, cmd])
        if rc == 0 and len(out) == 2:
            a = parse_answer(out[1])
            if a[0] == "ok" and all(math.isfinite(v) for v in a[1]):
                return "degenerate-parameter:mass-conserving-spline-unbounded-max-distance"
    if False and wj is not None and cmd.split()[0] in ("q3", "q2", "t3", "t2") and unbounded_plate_models(wj):     # such worlds are refused since upstream 6a8c0473
        # confirm: with a bounded plate thickness the same query answers with finite numbers
        w2 = copy.deepcopy(wj)
        for fi, mi in unbounded_plate_models(wj):
            w2["features"][fi]["temperature models"][mi]["max depth"] = 200e3
        path = os.path.join(proto.workdir("C13"), "diag.wb")
        json.dump(w2, open(path, "w"))
        rc, out, err = proto.run_harness(["world w %s 3" % path, cmd])
        if rc == 0 and len(out) == 2:
            a = parse_answer(out[1])
            if a[0] == "ok" and all(math.isfinite(v) for v in a[1]):
                return "degenerate-parameter:plate-model-unbounded-max-depth"
    if wj is not None and cmd.split()[0] in ("q3", "q2", "t3", "t2") and unbounded_linear(wj):
        # confirm: the world without those linear models answers with finite numbers
        w2 = copy.deepcopy(wj)
        for f in w2["features"]:
            f["temperature models"] = [m for m in f.get("temperature models", []) or [] if not (m.get("model") == "linear" and m.get("bottom temperature", -1) < 0)] if f.get("name") in unbounded_linear(wj) else f.get("temperature models", [])
        path = os.path.join(proto.workdir("C13"), "diag.wb")
        json.dump(w2, open(path, "w"))
        rc, out, err = proto.run_harness(["world w %s 3" % path, cmd])
        if rc == 0 and len(out) == 2:
            a = parse_answer(out[1])
            if a[0] == "ok" and all(math.isfinite(v) for v in a[1]):
                return "area-linear:adiabatic-bottom-at-unbounded-max-depth"
    return "non-finite:%s" % loc


def run_asan(lines, tags):
    """run one session under asan; split into per-world groups for crash isolation"""
    groups, gtags, cur, ct = [], [], [], []
    for l, t in zip(lines, tags):
        cur.append(l); ct.append(t)
        if l.startswith("free "):
            groups.append(cur); gtags.append(ct); cur, ct = [], []
    if cur:
        groups.append(cur); gtags.append(ct)
    return groups, gtags, prop_C12.run_groups(groups, "asan")


def oracle(seed, tier):
    rng = random.Random(seed * 9176 + 13)
    decl = json.load(open(proto.schema()[0]))
    wdir = proto.workdir("C13")
    lines, tags = build_session(rng, decl, tier, wdir, "o")
    groups, gtags, res = run_asan(lines, tags)
    viol, samples = [], []
    cases = nontriv = 0
    loc = {}
    for g, gt, r in zip(groups, gtags, res):
        outs, status, err = r if r else ([], "crash", "not run")
        wpath = g[0].split()[2]
        try:
            wj = json.load(open(wpath))
        except Exception:
            wj = None
        if status != "ok":
            k = len(outs)
            viol.append({"what": "%s under AddressSanitizer/UBSan at `%s` (location class %s): %s" % ("hang" if status == "hang" else "crash / sanitizer report", g[k][:160] if k < len(g) else "?", gt[k] if k < len(gt) else "?",
                                                                                                 err[-700:].replace("\n", " | ")), "world": wpath, "world_json": wj, "cmd": g[k] if k < len(g) else None,
                         "probe": "crash:%s" % (gt[k] if k < len(gt) else "?")})
        for cmd, t, o in zip(g, gt, outs):
            if t in ("world", "free"):
                continue
            cases += 1
            loc[t] = loc.get(t, 0) + 1
            a = parse_answer(o)
            if a[0] == "ok":
                if a[1] and (a[1][-1] != -1.0 or ":" not in t):
                    nontriv += 1
                if cmd.startswith("dist "):
                    # distance_to_plane reports +infinity for "no foot on the surface" (world.cc / utilities.cc initialise both distances with it): only NaN is a failure here
                    bad = [i for i, v in enumerate(a[1]) if math.isnan(v)]
                else:
                    bad = [i for i, v in enumerate(a[1]) if math.isnan(v) or math.isinf(v)]
                if bad:
                    viol.append({"what": "non-finite value %r in slot %d of the answer to `%s` (location class %s)" % (a[1][bad[0]], bad[0], cmd[:200], t), "world": wpath, "world_json": wj, "cmd": cmd,
                                 "probe": diagnose(wj, cmd, t)})
            elif a[0] == "err":
                if a[1] == "nonstd":
                    viol.append({"what": "a non-standard exception escaped `%s`" % cmd[:200], "world": wpath, "world_json": wj, "cmd": cmd, "probe": "nonstd-exception"})
            else:
                viol.append({"what": "unparseable answer %r to `%s`" % (o[:100], cmd[:200]), "world": wpath, "cmd": cmd, "probe": "harness"})
        if len(samples) < 2:
            samples.append({"world": wpath, "commands": g[1:4], "answers": [o[:80] for o in outs[1:4]]})
    # degenerate parameters
    pgroups, pnames = [], []
    for name, w in degenerate_parameter_worlds():
        path = os.path.join(wdir, "p_%s.wb" % name)
        json.dump(w, open(path, "w"))
        pts_ = [tuple(p) for p in SLAB_DEGENERATE["points"]] if name.startswith("slab-model:") else PARAM_PTS
        g = ["world w %s 3" % path] + [q3("w", [x, y, 1000e3 - d], d, PARAM_PROPS) for (x, y, d) in pts_]
        if "cross section" in w:
            g += [q2("w", [x, 1000e3 - d], d, PARAM_PROPS) for (x, y, d) in PARAM_PTS[:4]]
        if w.get("coordinate system", {}).get("model") == "spherical":
            g += [q3("w", [0.0, 0.0, 0.0], 0.0, PARAM_PROPS), q3("w", [1.0, 0.0, 0.0], 0.0, PARAM_PROPS)]
        g.append("free w")
        pgroups.append(g); pnames.append(name)
    pres = prop_C12.run_groups(pgroups, "asan")
    pstat = {}
    for name, g, r in zip(pnames, pgroups, pres):
        outs, status, err = r if r else ([], "crash", "not run")
        wj = json.load(open(g[0].split()[2]))
        outcome = "finite"
        if status != "ok":
            outcome = "crash"
            viol.append({"what": "degenerate parameters (%s): %s under AddressSanitizer/UBSan: %s" % (name, status, err[-500:].replace("\n", " | ")), "world_json": wj, "probe": "degenerate-parameter:%s" % name})
        elif outs and outs[0] != "ok":
            outcome = "rejected"
        else:
            for cmd, o in zip(g[1:-1], outs[1:-1]):
                cases += 1
                a = parse_answer(o)
                if a[0] == "ok" and any(math.isnan(v) or math.isinf(v) for v in a[1]):
                    outcome = "non-finite"
                    viol.append({"what": "degenerate parameters (%s): non-finite value in the answer to `%s`: %s" % (name, cmd[:120], [v for v in a[1] if math.isnan(v) or math.isinf(v)][:3]),
                                 "world_json": wj, "cmd": cmd, "probe": "degenerate-parameter:%s" % name})
                    break
                if a[0] == "err" and a[1] == "nonstd":
                    outcome = "nonstd"
                    viol.append({"what": "degenerate parameters (%s): non-standard exception" % name, "world_json": wj, "probe": "degenerate-parameter:%s" % name})
                    break
        pstat[name] = outcome
    return {"violations": trim_violations(viol, 40), "summary": {"cases": cases, "violations": len(viol), "nontrivial": nontriv, "by_location_class": loc, "degenerate_parameter_worlds": pstat}, "samples": samples}


def correspondence(seed, tier):
    rng = random.Random(seed * 9176 + 13)       # the same session as the oracle
    decl = json.load(open(proto.schema()[0]))
    wdir = proto.workdir("C13")
    lines, tags = build_session(rng, decl, tier, wdir, "o")
    r = corr_lines(lines)
    # worlds the model does not support: drop their mismatches
    unsupported = False
    keep = []
    state = {}
    cur_ok = True
    for line, a, b in zip(r["lines"], r["out_impl"], r["out_model"]):
        if line.startswith("world "):
            cur_ok = not b.startswith("err unsupported")
        state[line] = cur_ok
    r["mismatches"] = [m for m in r["mismatches"] if state.get(m.get("cmd"), True) and not m.get("cmd", "").startswith("free")]
    s = summarize_corr([r])
    return s


def replay(rp):
    v = rp["violation"]
    print(json.dumps({k: v[k] for k in v if k != "world_json"}, indent=1)[:3000])
    if v.get("world") and v.get("cmd") and os.path.exists(v["world"]):
        res = prop_C12.run_groups([["world w %s 3" % v["world"], v["cmd"]]], "asan")
        print(res[0])
    return False
