"""C01 — query answers are a pure function of file and query; batching is transparent."""
import json, os, random
from common import *
import twins

LEVEL = "proof"
RULE = ("correspondence: generated worlds (area features, plumes; both coordinate systems; all modelled models, no random models) queried through "
        "q3/q2/t/c/g entry points with random property lists, several worlds alive at once and queries interleaved; a case is one command line, "
        "non-trivial = answered with values; distinct = distinct command lines. oracle: on the C++ library alone, batched vs stand-alone vs permuted vs repeated "
        "vs single-property entry points vs after-other-queries, compared bit for bit.")
TRUSTED_BASE = ["history / other-world independence of the C++ (no hidden statics) is established by the correspondence and the oracle on sampled histories, not by a theorem"]
ASSUMPTIONS = ["worlds without random models (C15 covers those)", "a world the Lean driver cannot elaborate is answered `err unsupported` and skipped by the correspondence (counted in this file); since the second round this no longer includes the slab-only temperature models, water content and slab/fault random grains"]


def fresh_answer(world_path, cmd):
    """the library's answer to one command in a fresh process in which only this world exists"""
    w = cmd.split()
    w[1] = "f"
    rc, out, err = proto.run_harness(["world f %s -" % world_path, " ".join(w)])
    return out[1] if rc == 0 and len(out) == 2 else "crash rc=%s" % rc


def correspondence(seed, tier):
    n = budget(tier, 25, 400)
    rs = [corr.run_corr(seed * 1000 + k, "C01_%d" % k, n, 25, {"with_random": False, "with_lines": True}) for k in range(budget(tier, 1, 3))]
    # the stacked subset-of-models worlds of the oracle (other seed), model vs library bit for bit
    rng = random.Random(seed * 611953 + 11)
    wdir = proto.workdir("C01_stack")
    lines = []
    for k in range(budget(tier, 10, 60)):
        g = StackGen(rng)
        path = os.path.join(wdir, "stack_%d.wb" % k)
        json.dump(g.w, open(path, "w"))
        lines.append("world w %s -" % path)
        for (p, d) in g.queries(g.w, 8):
            lines.append(q3("w", p, d, g.props(5)))
        if "cross section" in g.w:
            for (p, d) in g.queries2d(g.w, 4):
                lines.append(q2("w", p, d, g.props(5)))
        lines.append("free w")
    rs.append(corr_lines(lines))
    res = summarize_corr(rs)
    # triage: a disagreement is a failing input of C01 itself if the library's answer inside the session (other worlds alive,
    # earlier queries made) differs from its answer to the same command in a fresh process
    for m in res["mismatches"][:8]:
        info = m.get("info") or {}
        if info.get("world") and info.get("kind") in ("q3", "q2"):
            fa = fresh_answer(info["world"], m["cmd"])
            if fa != m["impl"] and not m["impl"].startswith(fa[:len(m["impl"])]):
                m["is_property_violation"] = True
                m["what"] = "answer depends on the history / on other worlds: in-session %s… vs fresh process %s…" % (m["impl"][:60], fa[:60])
                m["world_json"] = json.load(open(info["world"]))
                m["fresh_answer"] = fa[:600]
                m["session_cmdfile"] = m.get("cmdfile")
    return res


class StackGen:
    """structured world: two to four area features over the same square, each carrying a random SUBSET of the four model kinds (temperature, composition,
    velocity, grains) - so a later feature regularly lacks the models for a property an earlier one painted - queried inside all of them with request batches
    of every size.  (What one block of a batch contains may not depend on which other properties are requested with it.)"""
    spherical = False

    def __init__(self, rng):
        self.rng = rng
        sq = [[-300e3, -300e3], [300e3, -300e3], [300e3, 300e3], [-300e3, 300e3]]
        feats = []
        for i in range(rng.randint(2, 4)):
            f = {"model": rng.choice(["continental plate", "oceanic plate", "mantle layer"]), "name": "s%d" % i, "coordinates": sq, "min depth": 0, "max depth": rng.choice([100e3, 150e3])}
            kinds = [k for k in "TCVG" if rng.random() < 0.5]
            if "T" in kinds:
                f["temperature models"] = [{"model": "uniform", "temperature": rng.choice([500, 900.5, 1300]), "operation": rng.choice(["replace", "add"])}]
            if "C" in kinds:
                f["composition models"] = [{"model": "uniform", "compositions": [rng.choice([0, 1])], "fractions": [rng.choice([1, 0.25])]}]
            if "V" in kinds:
                f["velocity models"] = [{"model": "uniform raw", "velocity": [rng.choice([0.03, -0.01]), rng.choice([-0.002, 0.02]), rng.choice([0, 0.005])]}]
            if "G" in kinds:
                f["grains models"] = [{"model": "uniform", "compositions": [0], "grain sizes": [0.25], "rotation matrices": [[[0, -1, 0], [1, 0, 0], [0, 0, 1]]]}]
            feats.append(f)
        self.w = {"version": "1.1", "features": feats}
        if rng.random() < 0.5:
            self.w["cross section"] = [[-250e3, -100e3], [250e3, 150e3]]

    def queries(self, w, n):
        r = self.rng
        out = []
        for _ in range(n):
            d = r.uniform(1e3, 140e3)
            out.append(([r.uniform(-280e3, 280e3), r.uniform(-280e3, 280e3), 1000e3 - d], d))
        return out

    def queries2d(self, w, n):
        r = self.rng
        out = []
        for _ in range(n):
            d = r.uniform(1e3, 140e3)
            out.append(([r.uniform(10e3, 500e3), 1000e3 - d], d))
        return out

    def props(self, nmax):
        r = self.rng
        pool = [(1, 0, 0), (2, 0, 0), (2, 1, 0), (3, 0, 1), (4, 0, 0), (5, 0, 0)]
        return r.sample(pool, r.randint(1, min(nmax, 4)))


def oracle(seed, tier):
    rng = random.Random(seed * 7919 + 1)
    wdir = proto.workdir("C01_oracle")
    nworlds = budget(tier, 12, 150)
    worlds = gen_worlds(rng, wdir, "o", nworlds, {"with_random": False, "with_lines": True})
    for k in range(budget(tier, 6, 40)):
        g = StackGen(rng)
        path = os.path.join(wdir, "stack_%d.wb" % k)
        json.dump(g.w, open(path, "w"))
        worlds.append((path, g.w, g))
    nworlds = len(worlds)
    lines, checks = [], []
    for wi, (path, w, g) in enumerate(worlds):
        lines.append("world w%d %s -" % (wi, path))
        checks.append(None)
    # all worlds stay alive; queries are interleaved over them
    plan = []
    for wi, (path, w, g) in enumerate(worlds):
        qs = [("q3", p, d) for (p, d) in g.queries(w, budget(tier, 10, 20))]
        if "cross section" in w:
            qs += [("q2", p, d) for (p, d) in g.queries2d(w, 4)]
        for (kind, p, d) in qs:
            plan.append((wi, kind, p, d, g.props(5)))
    rng.shuffle(plan)
    for (wi, kind, p, d, props) in plan:
        mk = q3 if kind == "q3" else q2
        wid = "w%d" % wi
        base = len(lines)
        lines.append(mk(wid, p, d, props)); checks.append(("batched", wi, kind, p, d, props, None))
        for i, pr in enumerate(props):
            lines.append(mk(wid, p, d, [pr])); checks.append(("single", base, i))
        perm = list(range(len(props))); rng.shuffle(perm)
        lines.append(mk(wid, p, d, [props[j] for j in perm])); checks.append(("perm", base, perm))
        lines.append(mk(wid, p, d, props + props)); checks.append(("twice", base))
        # single-property entry points
        sfx = "3" if kind == "q3" else "2"
        lines.append("t%s %s %s %s" % (sfx, wid, " ".join(fhex(v) for v in p), fhex(d))); checks.append(("t", base))
        lines.append("c%s %s %s %s 1" % (sfx, wid, " ".join(fhex(v) for v in p), fhex(d))); checks.append(("c", base, 1))
        # and the very same request again later (after queries on other worlds)
        plan_later = (base, mk(wid, p, d, props))
        if rng.random() < 0.5:
            lines.append(plan_later[1]); checks.append(("again", base))
    rc, out, err = proto.run_harness(lines)
    viol = []
    cases = 0
    if rc != 0 or len(out) != len(lines):
        viol.append({"what": "library crashed during the oracle run", "rc": rc, "stderr": err[-500:], "next_cmd": lines[len(out)] if len(out) < len(lines) else None})
    ans = [parse_answer(o) for o in out]
    nontriv = set()
    for i, ch in enumerate(checks[:len(ans)]):
        if ch is None or ch[0] == "batched":
            continue
        base = ch[1]
        b = ans[base]
        props = checks[base][5]
        wi = checks[base][1]
        cases += 1
        a = ans[i]
        def bad(msg):
            viol.append({"what": msg, "world": worlds[wi][0], "world_json": worlds[wi][1], "batched_cmd": lines[base], "batched_answer": out[base][:600],
                         "other_cmd": lines[i], "other_answer": out[i][:600], "relation": ch[0]})
        if b[0] != "ok":
            # the batched call threw: every derived call that contains the same requests must throw the same class
            if ch[0] in ("perm", "twice", "again") and (a[0] != b[0] or (a[0] == "err" and a[1] != b[1])):
                bad("batched request throws but the %s request does not" % ch[0])
            continue
        blocks = split_blocks(b[1], props)
        if len(b[1]) != sum(block_sizes(props)):
            bad("batched answer has %d values, announced %d" % (len(b[1]), sum(block_sizes(props))))
            continue
        nontriv.add(lines[base])
        if a[0] != "ok":
            bad("batched request answers but the %s request throws" % ch[0]); continue
        if ch[0] == "single":
            if bits(a[1]) != bits(blocks[ch[2]]):
                bad("block %d of the batched answer differs from the stand-alone answer" % ch[2])
        elif ch[0] == "perm":
            exp = [v for j in ch[2] for v in blocks[j]]
            if bits(a[1]) != bits(exp):
                bad("permuted request is not the permuted answer")
        elif ch[0] == "twice":
            if bits(a[1]) != bits(b[1] + b[1]):
                bad("request repeated inside one batch differs")
        elif ch[0] == "again":
            if bits(a[1]) != bits(b[1]):
                bad("same request later in the history differs")
        elif ch[0] == "t":
            # temperature entry point == block of a temperature request, if one was in the batch
            for j, pr in enumerate(props):
                if pr[0] == 1 and bits(a[1]) != bits(blocks[j]):
                    bad("temperature() differs from the temperature block")
        elif ch[0] == "c":
            for j, pr in enumerate(props):
                if pr[0] == 2 and pr[1] == ch[2] and bits(a[1]) != bits(blocks[j]):
                    bad("composition() differs from the composition block")
    # history / other-worlds independence: every world again, alone, in a fresh process, same batched requests
    for wi in range(min(len(worlds), budget(tier, 8, 40))):
        idxs = [i for i, ch in enumerate(checks[:len(out)]) if ch and ch[0] == "batched" and ch[1] == wi]
        if not idxs:
            continue
        fl = ["world w%d %s -" % (wi, worlds[wi][0])] + [lines[i] for i in idxs]
        rc2, out2, err2 = proto.run_harness(fl)
        for k, i in enumerate(idxs):
            cases += 1
            if rc2 != 0 or k + 1 >= len(out2) or out2[k + 1] != out[i]:
                viol.append({"what": "answer depends on the history / on other worlds alive in the process", "world": worlds[wi][0], "world_json": worlds[wi][1],
                             "batched_cmd": lines[i], "batched_answer": out[i][:600], "other_cmd": "(same command, fresh process, this world alone)",
                             "other_answer": (out2[k + 1][:600] if k + 1 < len(out2) else "crash"), "relation": "fresh-process", "session_lines": len(lines)})
                break
    # twin worlds (two disjoint features, same model type, different parameters): a twin's answers may not depend on the other twin having been evaluated before
    ct, nt = twins.twin_oracle(rng, budget(tier, 10, 1000), wdir, viol)
    # two worlds alive at once, same feature and place, different parameters, alternating queries at identical points
    cp_, np_ = twins.pair_oracle(rng, budget(tier, 12, 1000), wdir, viol)
    ct += cp_; nt += np_
    cases += ct
    samples = [{"batched": lines[i], "answer": out[i][:160]} for i, ch in enumerate(checks[:len(out)]) if ch and ch[0] == "batched"][:3]
    return {"violations": trim_violations(viol, 20), "summary": {"cases": cases, "violations": len(viol), "nontrivial": len(nontriv), "worlds": nworlds}, "samples": samples}


def replay(rp):
    v = rp["violation"]
    wdir = proto.workdir("C01_replay")
    path = os.path.join(wdir, "replay.wb")
    json.dump(v["world_json"], open(path, "w"))
    def fix(cmd):
        w = cmd.split()
        w[1] = "r"
        return " ".join(w)
    lines = ["world r %s -" % path, fix(v["batched_cmd"]), fix(v["other_cmd"])]
    rc, out, err = proto.run_harness(lines)
    print("\n".join(out))
    return False if rc != 0 else out[1:] == [v["batched_answer"], v["other_answer"]] and False
