"""C02 — features paint in file order; only covering features matter; operations compose."""
import copy, json, os, random
from common import *
import twins

LEVEL = "proof"
RULE = ("correspondence: worlds with up to 6 overlapping area features / plumes, every operation, model vs library. oracle (library only): per query point the covering "
        "features are found with single-feature worlds (tag != -1); then (a) the world with all non-covering features deleted, (b) the world with the non-covering "
        "features moved to random positions must answer bit-identically, (c) the tag must name the last covering feature, (d) for stacks of uniform temperature / "
        "composition models the answer must equal the fold of the declared operations over the covering features starting from the background, computed independently "
        "in double arithmetic. non-trivial = at least one feature covers the point.")
TRUSTED_BASE = []
ASSUMPTIONS = ["a world the Lean driver cannot elaborate is answered `err unsupported` and skipped by the correspondence (counted in this file)"]

GLOBAL_KEYS = ["version", "coordinate system", "gravity model", "potential mantle temperature", "surface temperature", "force surface temperature",
               "thermal expansion coefficient", "specific heat", "thermal diffusivity", "cross section", "random number seed"]


def correspondence(seed, tier):
    rs = [corr.run_corr(seed * 1000 + 20 + k, "C02_%d" % k, budget(tier, 20, 300), 25, {"with_random": False, "max_features": 6, "with_lines": True}) for k in range(budget(tier, 1, 3))]
    return summarize_corr(rs)


def with_features(w, feats):
    w2 = {k: v for k, v in w.items() if k != "features"}
    w2["features"] = feats
    return w2


def default_tag(f):
    t = f.get("tag", "")
    return t if t else f["model"]


def uniform_stack_world(rng, spherical):
    """world whose features carry only uniform temperature / composition models with random operations and constant depth ranges"""
    g = WorldGen(random.Random(rng.getrandbits(64)), spherical=spherical, with_surfaces=False, with_cross=False)
    w = {"version": "1.1", "features": []}
    if spherical:
        w["coordinate system"] = {"model": "spherical", "depth method": "begin segment"}
    c, rad = g.center(), g.scale()
    for i in range(rng.randint(2, 5)):
        corners, _, _ = g.polygon([c[0] + rng.choice([-1, 0, 1]) * g.step() * 4, c[1]], rad)
        kind = rng.choice(["continental plate", "oceanic plate", "mantle layer"])
        f = {"model": kind, "name": "s%d" % i, "coordinates": corners, "min depth": rng.choice([0, 10e3]), "max depth": rng.choice([100e3, 200e3])}
        tm = []
        for _ in range(rng.randint(0, 2)):
            tm.append({"model": "uniform", "temperature": rng.choice([100, 250.5, 1000, 3]), "operation": rng.choice(["replace", "add", "subtract"]),
                       "min depth": rng.choice([0, 20e3]), "max depth": rng.choice([50e3, 150e3, 300e3])})
        cm = []
        for _ in range(rng.randint(0, 3)):
            comps = rng.sample(range(4), rng.randint(1, 2))
            cm.append({"model": "uniform", "compositions": comps, "fractions": [rng.choice([1, 0.5, 0.25, 0.125, 0, 0]) for _ in comps],
                       "operation": rng.choice(["replace", "add", "subtract", "replace defined only"]),
                       "min depth": rng.choice([0, 20e3]), "max depth": rng.choice([50e3, 150e3, 300e3])})
        f["temperature models"] = tm
        f["composition models"] = cm
        w["features"].append(f)
    # slabs / faults over the same region: identical sections, models at feature level, default distance ranges
    for i in range(rng.randint(0, 2)):
        kind = rng.choice(["subducting plate", "fault"])
        f, _, _ = g.line(kind, c, rad)
        for k in ("temperature models", "composition models", "velocity models", "grains models", "sections"):
            f.pop(k, None)
        for sg in f["segments"]:
            for k in ("temperature models", "composition models", "velocity models", "grains models", "top truncation"):
                sg.pop(k, None)
        f["name"] = "l%d" % i
        f["min depth"] = 0
        f["max depth"] = 1e7
        tm = [{"model": "uniform", "temperature": rng.choice([100, 250.5, 1000, 3]), "operation": rng.choice(["replace", "add", "subtract"]), "min depth": -1e300, "max depth": 1e300}
              for _ in range(rng.randint(0, 2))]
        cm = []
        for _ in range(rng.randint(0, 2)):
            comps = rng.sample(range(4), rng.randint(1, 2))
            cm.append({"model": "uniform", "compositions": comps, "fractions": [rng.choice([1, 0.5, 0.25, 0.125, 0, 0]) for _ in comps],
                       "operation": rng.choice(["replace", "add", "subtract", "replace defined only"]), "min depth": -1e300, "max depth": 1e300})
        # the stack oracle reads "min depth"/"max depth" of a model as its range; for line features the real keys are distances (left at their defaults)
        f["temperature models"] = [{k: v for k, v in m.items() if k not in ("min depth", "max depth")} for m in tm]
        f["composition models"] = [{k: v for k, v in m.items() if k not in ("min depth", "max depth")} for m in cm]
        f["_oracle_models"] = (tm, cm)
        w["features"].insert(rng.randint(0, len(w["features"])), f)
    g.regions = [(c, rad)]
    return w, g


def expected_stack(w, covering, depth, background_T, ncomp=4):
    """fold of the declared operations over the covering features (the property statement, evaluated in double arithmetic)"""
    T = background_T
    C = [0.0] * ncomp
    for f in covering:
        if "_oracle_models" in f:
            f = {"temperature models": f["_oracle_models"][0], "composition models": f["_oracle_models"][1]}
        for m in f.get("temperature models", []):
            if m["min depth"] <= depth <= m["max depth"]:
                v = float(m["temperature"])
                T = {"replace": v, "add": T + v, "subtract": T - v}[m["operation"]]
        for m in f.get("composition models", []):
            if m["min depth"] <= depth <= m["max depth"]:
                for n in range(ncomp):
                    if n in m["compositions"]:
                        v = float(m["fractions"][m["compositions"].index(n)])
                        C[n] = {"replace": v, "replace defined only": v, "add": C[n] + v, "subtract": C[n] - v}[m["operation"]]
                    elif m["operation"] == "replace":
                        C[n] = 0.0
    return T, C


def oracle(seed, tier):
    rng = random.Random(seed * 104729 + 2)
    wdir = proto.workdir("C02_oracle")
    viol, cases, nontriv = [], 0, 0
    samples = []
    # ---- (a)(b)(c): deletion / permutation of non-covering features, tag of the last covering one
    worlds = gen_worlds(rng, wdir, "o", budget(tier, 10, 120), {"with_random": False, "max_features": 6, "with_lines": True})
    for wi, (path, w, g) in enumerate(worlds):
        feats = w["features"]
        if not feats:
            continue
        qs = g.queries(w, budget(tier, 6, 12))
        lines = ["world W %s -" % path, "tags W"]
        for fi, f in enumerate(feats):
            p1 = os.path.join(wdir, "o_%d_f%d.wb" % (wi, fi))
            json.dump(with_features(w, [f]), open(p1, "w"))
            lines.append("world F%d %s -" % (fi, p1))
        props = [(4, 0, 0), (1, 0, 0), (2, 0, 0), (2, 1, 0), (3, 0, 1), (5, 0, 0)]
        base = len(lines)
        for (p, d) in qs:
            lines.append(q3("W", p, d, props))
            for fi in range(len(feats)):
                lines.append(q3("F%d" % fi, p, d, [(4, 0, 0)]))
        rc, out, err = proto.run_harness(lines)
        if rc != 0 or len(out) != len(lines):
            viol.append({"what": "library crashed", "world": path, "world_json": w, "stderr": err[-300:]}); continue
        tags = out[1].split(" ", 2)[2].split("|") if out[1].startswith("ok") and len(out[1].split(" ", 2)) > 2 else []
        k = base
        second = []
        for (p, d) in qs:
            full = parse_answer(out[k]); k += 1
            cov = []
            for fi in range(len(feats)):
                a = parse_answer(out[k]); k += 1
                cov.append(a[0] == "ok" and a[1][0] != -1.0)
            if full[0] != "ok":
                continue
            cases += 1
            if any(cov):
                nontriv += 1
            # (c) tag
            tagv = full[1][0]
            lastcov = [f for f, c in zip(feats, cov) if c]
            exp_tag = default_tag(lastcov[-1]) if lastcov else None
            got_tag = tags[int(tagv)] if tagv >= 0 and int(tagv) < len(tags) else None
            if exp_tag != got_tag:
                viol.append({"what": "tag is %r but the last covering feature has tag %r" % (got_tag, exp_tag), "world": path, "world_json": w, "point": p, "depth": d,
                             "covering": cov, "cmd": q3("W", p, d, props)})
            # (a)(b) derived worlds
            kept = [f for f, c in zip(feats, cov) if c]
            non = [f for f, c in zip(feats, cov) if not c]
            moved = list(kept)
            for f in non:
                moved.insert(rng.randint(0, len(moved)), f)
            second.append((p, d, full, kept, moved, cov))
        # second pass: derived worlds (tag indices may differ between worlds, so tags are compared by name)
        lines2 = []
        meta2 = []
        for qi, (p, d, full, kept, moved, cov) in enumerate(second):
            for nm, fl in (("del", kept), ("mov", moved)):
                pth = os.path.join(wdir, "o_%d_q%d_%s.wb" % (wi, qi, nm))
                json.dump(with_features(w, fl), open(pth, "w"))
                lines2 += ["world D %s -" % pth, "tags D", q3("D", p, d, props)]
                meta2.append((qi, nm, pth, fl))
        if lines2:
            rc, out2, err = proto.run_harness(lines2)
            if rc != 0 or len(out2) != len(lines2):
                viol.append({"what": "library crashed on a derived world", "world": path, "world_json": w, "stderr": err[-300:]}); continue
            for j, (qi, nm, pth, fl) in enumerate(meta2):
                p, d, full, kept, moved, cov = second[qi]
                a = parse_answer(out2[3 * j + 2])
                t2 = out2[3 * j + 1].split(" ", 2)[2].split("|") if len(out2[3 * j + 1].split(" ", 2)) > 2 else []
                cases += 1
                ok = a[0] == "ok" and bits(a[1][1:]) == bits(full[1][1:])
                if ok:
                    n1 = tags[int(full[1][0])] if full[1][0] >= 0 else None
                    n2 = t2[int(a[1][0])] if a[1][0] >= 0 and int(a[1][0]) < len(t2) else None
                    ok = n1 == n2
                if not ok:
                    viol.append({"what": "answer changes when the non-covering features are %s" % ("deleted" if nm == "del" else "moved"), "world": path, "world_json": w,
                                 "derived_world_json": with_features(w, fl), "point": p, "depth": d, "covering": cov, "full_answer": out[0][:10], "cmd": q3("W", p, d, props),
                                 "answer_full": bits(full[1]), "answer_derived": (bits(a[1]) if a[0] == "ok" else a)})
        if len(samples) < 2 and second:
            samples.append({"world": path, "point": second[0][0], "depth": second[0][1], "covering": second[0][5]})
    # ---- (a') twin worlds: two disjoint features with the same model type and different parameters; each twin alone in a fresh process must answer alike
    ct, nt = twins.twin_oracle(rng, 1000, wdir, viol)
    cases += ct; nontriv += nt
    # ---- (c') the tag is written by the FEATURE, not by its models: stacks of squares with known depth ranges in which some features carry no models at all;
    # the expected tag (by name) is that of the last feature whose range contains the depth - decided from the file alone
    kinds3 = ["continental plate", "oceanic plate", "mantle layer"]
    for mi in range(budget(tier, 8, 60)):
        sq = [[-300e3, -300e3], [300e3, -300e3], [300e3, 300e3], [-300e3, 300e3]]
        feats = []
        for i in range(rng.randint(2, 4)):
            lo = rng.choice([0, 20e3, 60e3]); hi = lo + rng.choice([50e3, 100e3, 200e3])
            f = {"model": rng.choice(kinds3), "name": "m%d" % i, "tag": "t%d" % i, "coordinates": sq, "min depth": lo, "max depth": hi}
            if rng.random() < 0.5:
                f[rng.choice(["temperature models", "composition models"])] = [{"model": "uniform", "temperature": 700 + i}] if rng.random() < 0.5 else []
                if "composition models" in f and f["composition models"]:
                    f["composition models"] = [{"model": "uniform", "compositions": [i % 3]}]
                if "temperature models" in f and not f["temperature models"]:
                    del f["temperature models"]
                if "composition models" in f and not f["composition models"]:
                    del f["composition models"]
            feats.append(f)
        w = {"version": "1.1", "features": feats}
        path = os.path.join(wdir, "marker_%d.wb" % mi)
        json.dump(w, open(path, "w"))
        qs = [([rng.uniform(-250e3, 250e3), rng.uniform(-250e3, 250e3)], rng.uniform(1e3, 280e3)) for _ in range(10)]
        lines = ["world W %s -" % path, "tags W"] + [q3("W", [p[0], p[1], 1000e3 - d], d, [(4, 0, 0)]) for (p, d) in qs]
        rc, out, err = proto.run_harness(lines)
        if rc != 0 or len(out) != len(lines) or out[0] != "ok":
            viol.append({"what": "library failed on a marker-stack world", "world_json": w, "stderr": err[-200:]}); continue
        tags = out[1].split(" ", 2)[2].split("|") if len(out[1].split(" ", 2)) > 2 else []
        for (p, d), o, cmd in zip(qs, out[2:], lines[2:]):
            a = parse_answer(o)
            cases += 1
            if a[0] != "ok":
                continue
            cov = [f for f in feats if f["min depth"] + 1.0 <= d <= f["max depth"] - 1.0]
            edge = any(abs(d - f["min depth"]) <= 1.0 or abs(d - f["max depth"]) <= 1.0 for f in feats)
            if edge:
                continue
            nontriv += 1 if cov else 0
            exp = cov[-1]["tag"] if cov else None
            got = tags[int(a[1][0])] if a[1][0] >= 0 and int(a[1][0]) < len(tags) else None
            if exp != got:
                viol.append({"what": "tag is %r but the last feature whose depth range contains %.6g m is %r (%s; models: %s)" % (
                    got, d, exp, cov[-1]["model"] if cov else "-", [k for k in (cov[-1] if cov else {}) if k.endswith("models")]), "world_json": w, "world": path, "cmd": cmd})
                break
    # ---- (d) operation algebra on stacks of uniform models
    for si in range(budget(tier, 12, 150)):
        sph = rng.random() < 0.3
        w, g = uniform_stack_world(rng, sph)
        path = os.path.join(wdir, "s_%d.wb" % si)
        oracle_models = [f.pop("_oracle_models", None) for f in w["features"]]
        json.dump(w, open(path, "w"))
        qs = g.queries(w, budget(tier, 8, 12))
        feats = w["features"]
        for f, om in zip(feats, oracle_models):
            if om is not None:
                f["_oracle_models"] = om
        lines = ["world W %s -" % path]
        bgp = os.path.join(wdir, "s_%d_bg.wb" % si)
        json.dump(with_features(w, []), open(bgp, "w"))
        lines.append("world B %s -" % bgp)
        for fi, f in enumerate(feats):
            p1 = os.path.join(wdir, "s_%d_f%d.wb" % (si, fi))
            json.dump(with_features(w, [{k: v for k, v in f.items() if k != "_oracle_models"}]), open(p1, "w"))
            lines.append("world F%d %s -" % (fi, p1))
        props = [(1, 0, 0), (2, 0, 0), (2, 1, 0), (2, 2, 0), (2, 3, 0)]
        base = len(lines)
        for (p, d) in qs:
            lines.append(q3("W", p, d, props))
            lines.append(q3("B", p, d, [(1, 0, 0)]))
            for fi in range(len(feats)):
                lines.append(q3("F%d" % fi, p, d, [(4, 0, 0)]))
        rc, out, err = proto.run_harness(lines)
        if rc != 0 or len(out) != len(lines):
            viol.append({"what": "library crashed", "world": path, "world_json": w}); continue
        k = base
        for (p, d) in qs:
            full = parse_answer(out[k]); bg = parse_answer(out[k + 1]); k += 2
            cov = []
            for fi in range(len(feats)):
                a = parse_answer(out[k]); k += 1
                cov.append(a[0] == "ok" and a[1][0] != -1.0)
            if full[0] != "ok" or bg[0] != "ok":
                continue
            cases += 1
            covering = [f for f, c in zip(feats, cov) if c]
            if covering:
                nontriv += 1
            T, C = expected_stack(w, covering, d, bg[1][0])
            if bits([T] + C) != bits(full[1]):
                viol.append({"what": "stack of operations: expected T=%r C=%r, library returned %r" % (T, C, full[1]), "world": path, "world_json": json.loads(open(path).read()),
                             "point": p, "depth": d, "covering": cov, "cmd": q3("W", p, d, props)})
        if si == 0:
            samples.append({"stack_world": json.loads(open(path).read()), "first_query": qs[0] if qs else None})
    # ---- a slab / fault WITHOUT models of a kind leaves that kind's entries as they were (found by the proof attempt C02_line_no_models_identity, worker MR): velocity and grains
    for kind in ("fault", "subducting plate"):
        w = {"version": "1.1", "coordinate system": {"model": "cartesian"},
             "features": [{"model": kind, "name": "f", "coordinates": [[0, 0], [0, 300e3]], "dip point": [100e3, 0], "segments": [{"length": 200e3, "thickness": [100e3], "angle": [45]}]}]}
        path = os.path.join(wdir, "nomodels_%s.wb" % kind.split()[0])
        json.dump(w, open(path, "w"))
        empty = os.path.join(wdir, "nomodels_empty.wb")
        json.dump({"version": "1.1", "coordinate system": {"model": "cartesian"}, "features": []}, open(empty, "w"))
        pts = [([20e3, 100e3, 990e3], 10e3), ([30e3, 150e3, 975e3], 25e3)] if kind == "fault" else [([20e3, 100e3, 960e3], 40e3), ([50e3, 150e3, 920e3], 80e3)]
        lines = ["world w %s -" % path, "world e %s -" % empty]
        for (p3, d) in pts:
            for pr in ([(4, 0, 0)], [(5, 0, 0)], [(3, 0, 1)]):
                lines.append(q3("w", p3, d, pr)); lines.append(q3("e", p3, d, pr))
        rc, out, err = proto.run_harness(lines)
        if rc != 0 or len(out) != len(lines) or out[:2] != ["ok", "ok"]:
            viol.append({"what": "library failed on the model-less %s world: rc=%s %s" % (kind, rc, out[:2]), "world_json": w}); continue
        k = 2
        seen = set()
        for (p3, d) in pts:
            tag = parse_answer(out[k]); vw, ve = parse_answer(out[k + 2]), parse_answer(out[k + 3]); gw, ge = parse_answer(out[k + 4]), parse_answer(out[k + 5])
            k += 6
            cases += 2
            if tag[0] != "ok" or tag[1][0] == -1.0:
                continue            # the point is not inside the feature
            nontriv += 2
            if vw != ve and "v" not in seen:
                seen.add("v")
                viol.append({"what": "%s without velocity models: the velocity at a point inside it is %s, without the feature %s" % (kind, vw[1] if vw[0] == "ok" else vw, ve[1] if ve[0] == "ok" else ve),
                             "world_json": w, "world": path, "cmd": q3("w", p3, d, [(5, 0, 0)]), "probe": "line-without-velocity-models-writes-velocity"})
            if gw != ge and "g" not in seen:
                seen.add("g")
                viol.append({"what": "%s without grains models: the grains entry at a point inside it is %s, without the feature %s" % (kind, gw[1] if gw[0] == "ok" else gw, ge[1] if ge[0] == "ok" else ge),
                             "world_json": w, "world": path, "cmd": q3("w", p3, d, [(3, 0, 1)]), "probe": "line-without-grains-models-rewrites-matrices"})
    return {"violations": trim_violations(viol, 20), "summary": {"cases": cases, "violations": len(viol), "nontrivial": nontriv}, "samples": samples}


def replay(rp):
    v = rp["violation"]
    wdir = proto.workdir("C02_replay")
    path = os.path.join(wdir, "replay.wb")
    json.dump(v["world_json"], open(path, "w"))
    lines = ["world W %s -" % path, v["cmd"]]
    rc, out, err = proto.run_harness(lines)
    print("\n".join(out))
    return False
