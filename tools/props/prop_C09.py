"""C09 — the 2-D cross-section interface equals the 3-D interface along the section."""
import json, math, os, random
from common import *

LEVEL = "proof"
RULE = ("correspondence: worlds with a cross section (oblique, reversed, both coordinate systems) queried through q2/t2/c2/g2 and q3; worlds without cross section must refuse. "
        "oracle (library only): every 2-D answer is compared with the 3-D answer at the point the statement describes (computed independently in double arithmetic: "
        "cs0 + x*u for Cartesian, angle atan2(z,x) and radius sqrt(x^2+z^2) for spherical), velocity blocks compared with (u.(vx,vy), vz, 0); continuous values within "
        "1e-9 relative, discrete values (tag, jumps) exactly unless the 3-D answer changes within 1e-6 of the section length around the point. pairs of cross-section worlds are kept alive together and asked the same 2-D point one after the other (each must answer along its own section). non-trivial = inside some feature.")
TRUSTED_BASE = ["libm of the platform for the oracle's independent lift"]
ASSUMPTIONS = []


def correspondence(seed, tier):
    rs = [corr.run_corr(seed * 1000 + 90 + k, "C09_%d" % k, budget(tier, 25, 300), 20, {"with_random": False, "with_cross": True, "with_lines": True}) for k in range(budget(tier, 1, 2))]
    rs += [corr.run_corr(seed * 1000 + 95, "C09_nocross", budget(tier, 6, 40), 6, {"with_random": False, "with_cross": False, "with_lines": True})]
    return summarize_corr(rs)


def lift(w, g, p):
    cs = w["cross section"]
    if g.spherical:
        f = math.pi / 180.0
        c0 = [cs[0][0] * f, cs[0][1] * f]; c1 = [cs[1][0] * f, cs[1][1] * f]
    else:
        c0, c1 = [float(v) for v in cs[0]], [float(v) for v in cs[1]]
    dx, dy = c0[0] - c1[0], c0[1] - c1[1]
    s = -1.0 / math.sqrt(dx * dx + dy * dy)
    u = [dx * s, dy * s]
    if g.spherical:
        r = math.sqrt(p[0] * p[0] + p[1] * p[1])
        a = math.atan2(p[1], p[0])
        lon, lat = c0[0] + a * u[0], c0[1] + a * u[1]
        cl = r * math.sin(0.5 * math.pi - lat)
        return [cl * math.cos(lon), cl * math.sin(lon), r * math.cos(0.5 * math.pi - lat)], u
    return [c0[0] + p[0] * u[0], c0[1] + p[0] * u[1], p[1]], u


def oracle(seed, tier):
    rng = random.Random(seed * 15485863 + 9)
    wdir = proto.workdir("C09_oracle")
    worlds = gen_worlds(rng, wdir, "o", budget(tier, 20, 250), {"with_random": False, "with_cross": True, "with_lines": True})
    viol, cases, nontriv, samples = [], 0, 0, []
    lines, meta = [], []
    for wi, (path, w, g) in enumerate(worlds):
        lines.append("world w%d %s -" % (wi, path)); meta.append(None)
        for (p, d) in g.queries2d(w, budget(tier, 10, 16)):
            props = g.props(5, grains_k=(0, 1, 2, 3))
            p3, u = lift(w, g, p)
            eps = 1e-6
            near = []
            for s in (-1, 1):
                pp = [p[0] * (1 + s * eps) + s * eps, p[1]] if not g.spherical else [p[0] * math.cos(s * eps) - p[1] * math.sin(s * eps), p[0] * math.sin(s * eps) + p[1] * math.cos(s * eps)]
                near.append(lift(w, g, pp)[0])
            lines.append(q2("w%d" % wi, p, d, props)); meta.append(("2d", wi, p, d, props, u))
            lines.append(q3("w%d" % wi, p3, d, props)); meta.append(("3d",))
            for n3 in near:
                lines.append(q3("w%d" % wi, n3, d, [(4, 0, 0)] + [pr for pr in props if pr[0] == 2])); meta.append(("near",))
            lines.append(q3("w%d" % wi, p3, d, [(4, 0, 0)] + [pr for pr in props if pr[0] == 2])); meta.append(("near0",))
        lines.append("free w%d" % wi); meta.append(None)
    # two worlds alive at once, the same 2-D point asked of one and then of the other (each world must answer along ITS OWN section: no state shared
    # between worlds or between consecutive calls)
    def block(name, wi, w, g, p, d, props):
        p3, u = lift(w, g, p)
        eps = 1e-6
        near = []
        for s in (-1, 1):
            pp = [p[0] * (1 + s * eps) + s * eps, p[1]] if not g.spherical else [p[0] * math.cos(s * eps) - p[1] * math.sin(s * eps), p[0] * math.sin(s * eps) + p[1] * math.cos(s * eps)]
            near.append(lift(w, g, pp)[0])
        lines.append(q2(name, p, d, props)); meta.append(("2d", wi, p, d, props, u))
        lines.append(q3(name, p3, d, props)); meta.append(("3d",))
        for n3 in near:
            lines.append(q3(name, n3, d, [(4, 0, 0)] + [pr for pr in props if pr[0] == 2])); meta.append(("near",))
        lines.append(q3(name, p3, d, [(4, 0, 0)] + [pr for pr in props if pr[0] == 2])); meta.append(("near0",))
    interleaved = 0
    for wi in range(0, len(worlds) - 1, 2):
        (pa, wa, ga), (pb, wb, gb) = worlds[wi], worlds[wi + 1]
        if ga.spherical != gb.spherical:
            continue
        lines.append("world ia %s -" % pa); meta.append(None)
        lines.append("world ib %s -" % pb); meta.append(None)
        for (first, second, wsecond, wj) in (("ia", "ib", (wb, gb), wi + 1), ("ib", "ia", (wa, ga), wi)):
            w2, g2 = wsecond
            for (p, d) in g2.queries2d(w2, budget(tier, 4, 8)):
                props = g2.props(5, grains_k=(0, 1, 2, 3))
                lines.append(q2(first, p, d, props)); meta.append(("warm",))
                block(second, wj, w2, g2, p, d, props)
                interleaved += 1
        lines.append("free ia"); meta.append(None)
        lines.append("free ib"); meta.append(None)
    # worlds without cross section refuse
    nocross = gen_worlds(rng, wdir, "n", budget(tier, 5, 30), {"with_random": False, "with_cross": False, "with_lines": True})
    for wi, (path, w, g) in enumerate(nocross):
        lines.append("world n%d %s -" % (wi, path)); meta.append(None)
        for props in ([(1, 0, 0)], [(2, 1, 0), (5, 0, 0)], [(3, 0, 2)]):
            lines.append(q2("n%d" % wi, [1000.0, 999e3], 1000.0, props)); meta.append(("refuse", wi))
        lines.append("free n%d" % wi); meta.append(None)
    rc, out, err = proto.run_harness(lines)
    if rc != 0 or len(out) != len(lines):
        viol.append({"what": "library crashed", "stderr": err[-300:], "next_cmd": lines[len(out)] if len(out) < len(lines) else None})
    i = 0
    while i < len(out):
        m = meta[i]
        if m is None:
            i += 1; continue
        if m[0] == "refuse":
            if out[i].startswith("err no-world"):
                i += 1; continue            # the generator produced a world the library refuses to construct: nothing to ask
            cases += 1
            if not out[i].startswith("err no-cross-section"):
                viol.append({"what": "2-D query on a world without cross section was not refused", "world": nocross[m[1]][0], "world_json": nocross[m[1]][1], "cmd": lines[i], "answer": out[i][:200]})
            i += 1; continue
        if m[0] != "2d":
            i += 1; continue
        _, wi, p, d, props, u = m
        path, w, g = worlds[wi]
        a2, a3 = parse_answer(out[i]), parse_answer(out[i + 1])
        n1, n2, n0 = parse_answer(out[i + 2]), parse_answer(out[i + 3]), parse_answer(out[i + 4])
        i += 5
        cases += 1
        def bad(msg):
            viol.append({"what": msg, "world": path, "world_json": w, "point2d": p, "depth": d, "cmd": lines[i - 5], "cmd3d": lines[i - 4], "answer2d": out[i - 5][:400], "answer3d": out[i - 4][:400]})
        if a2[0] != a3[0] or (a2[0] == "err" and a2[1] != a3[1]):
            bad("2-D %s but 3-D %s" % (a2[:2], a3[:2])); continue
        if a2[0] != "ok":
            continue
        if len(a2[1]) != len(a3[1]):
            bad("2-D answer has %d values, 3-D %d" % (len(a2[1]), len(a3[1]))); continue
        stable = n1[0] == "ok" and n2[0] == "ok" and n0[0] == "ok" and bits(n1[1]) == bits(n0[1]) == bits(n2[1])
        b2, b3 = split_blocks(a2[1], props), split_blocks(a3[1], props)
        if n0[0] == "ok" and n0[1][0] != -1.0:
            nontriv += 1
        for pr, x2, x3 in zip(props, b2, b3):
            if pr[0] == 5:
                exp = [u[0] * x3[0] + u[1] * x3[1], x3[2], 0.0]
                if not all(corr.close(a, b, 1e-9) for a, b in zip(x2, exp)):
                    if stable:
                        bad("velocity block %r is not the projection %r of the 3-D velocity %r" % (x2, exp, x3))
            elif pr[0] == 4:
                if x2 != x3 and stable:
                    bad("tag differs between the 2-D and the 3-D interface")
            else:
                if not all(corr.close(a, b, 1e-9) for a, b in zip(x2, x3)) and stable:
                    bad("block of request %s differs: 2-D %r, 3-D %r" % (pr, x2[:4], x3[:4]))
        if len(samples) < 3:
            samples.append({"world": path, "point2d": p, "depth": d, "lifted": lines[i - 4].split()[2:5], "answer2d": out[i - 5][:120]})
    return {"violations": trim_violations(viol, 20), "summary": {"cases": cases, "violations": len(viol), "nontrivial": nontriv, "interleaved_two_world_queries": interleaved}, "samples": samples}


def replay(rp):
    v = rp["violation"]
    wdir = proto.workdir("C09_replay")
    path = os.path.join(wdir, "replay.wb")
    json.dump(v["world_json"], open(path, "w"))
    ls = ["world r %s -" % path]
    for c in (v.get("cmd"), v.get("cmd3d")):
        if c:
            w = c.split(); w[1] = "r"; ls.append(" ".join(w))
    rc, out, err = proto.run_harness(ls)
    print("\n".join(out))
    return False
