"""C08 — answers are invariant under rigid motions of world plus query."""
import copy, json, math, os, random
from common import *

LEVEL = "proof"
RULE = ("generated worlds of every feature kind (area features with depth surfaces and ridge-based models, plumes, curved slabs and faults). Every coordinate in the file "
        "(feature coordinates, dip points, ridge coordinates, depth-surface points, cross section) and the query point are moved together: Cartesian translation (multiples of 1 km, "
        "so the moved file is exactly representable), Cartesian rotation about the vertical (plume rotation angles shifted accordingly), spherical common longitude offset (multiples of 0.25 "
        "degrees, chosen so that longitudes stay in [-360, 360] and biased towards offsets that push features across the +-180 meridian), and the same query described with longitude L+-360. "
        "oracle: original vs moved world on the library; temperature, composition, grains within 1e-6 relative (+1e-5 absolute), tag exact; a query is skipped as `near a boundary` when any of six "
        "neighbours 1 m away (four horizontal, two in depth) has a different tag or a temperature more than 1 K different, in the original or in the moved world. correspondence: the Lean model vs the library on "
        "the moved worlds (translations and longitude offsets only: the moved numbers are exact in both JSON readers). non-trivial = compared query inside at least one feature.")
TRUSTED_BASE = ["rotation invariance of the polygon test is not a theorem (C08_rotation_partial excludes it): it is covered by this oracle only",
                "the theorems are exact-field statements per kernel and per guard (polygon, Bezier/Newton iterates, ridge distance, kd-tree/surface lookup, bounding box, plume, area-feature guard); "
                "there is no whole-world theorem, and the slab frame construction (distance_point_from_curved_planes) is not treated"]
ASSUMPTIONS = ["'up to rounding': continuous outputs are compared with tolerance 1e-6 relative + 1e-5 absolute; discrete outputs only away from feature boundaries (1 m neighbour test)"]

PROPS = [(1, 0, 0), (2, 0, 0), (2, 1, 0), (2, 2, 0), (2, 3, 0), (3, 0, 1), (4, 0, 0)]


def num(v):
    return int(v) if float(v).is_integer() and abs(v) < 1e15 else v


def map_points(w, fpt, frot=None):
    """apply fpt to every surface coordinate of the world file; frot (Cartesian rotation) maps plume rotation angles"""
    w = copy.deepcopy(w)

    def P(p):
        q = fpt(p[0], p[1])
        return [num(q[0]), num(q[1])]

    def depth_entry(v):
        if isinstance(v, list):
            for it in v:
                if isinstance(it, list) and len(it) > 1 and isinstance(it[1], list):
                    it[1] = [P(p) for p in it[1]]

    def models(f):
        for mk in ("temperature models", "composition models", "velocity models", "grains models"):
            for m in f.get(mk, []) or []:
                for key in ("min depth", "max depth"):
                    if key in m:
                        depth_entry(m[key])
                if "ridge coordinates" in m:
                    m["ridge coordinates"] = [[P(p) for p in ridge] for ridge in m["ridge coordinates"]]

    if "cross section" in w:
        w["cross section"] = [P(p) for p in w["cross section"]]
    for f in w.get("features", []):
        f["coordinates"] = [P(p) for p in f["coordinates"]]
        if "dip point" in f:
            f["dip point"] = P(f["dip point"])
        for key in ("min depth", "max depth"):
            if key in f:
                depth_entry(f[key])
        models(f)
        for seg in f.get("segments", []) or []:
            models(seg)
        for sec in f.get("sections", []) or []:
            models(sec)
            for seg in sec.get("segments", []) or []:
                models(seg)
        if frot is not None and "rotation angles" in f:
            f["rotation angles"] = [frot(a) for a in f["rotation angles"]]
    return w


def all_lons(w):
    out = []
    map_points(w, lambda x, y: (out.append(x), (x, y))[1])
    return out


def motions(rng, w, spherical):
    """-> list of (name, moved world, point map on natural surface coordinates, exact?)"""
    out = []
    if spherical:
        lons = all_lons(w) or [0]
        lo, hi = -360 - min(lons), 360 - max(lons)
        cands = set()
        for _ in range(6):
            cands.add(round(rng.uniform(lo, hi) * 4) / 4)
        cands.update([math.floor(hi * 4) / 4, math.ceil(lo * 4) / 4])        # the extremes: longitudes reach +-360
        for d in (180, -180, 360, -360, 190, -170):
            if lo <= d <= hi:
                cands.add(float(d))
        cands.discard(0.0)
        for d in rng.sample(sorted(cands), min(3, len(cands))):
            out.append(("longitude%+g" % d, map_points(w, lambda x, y, d=d: (x + d, y)), (lambda x, y, d=d: (x + d, y)), True))
    else:
        for _ in range(2):
            tx, ty = rng.choice([1, 7, 250, -1300, 4000]) * 1e3, rng.choice([0, -3, 90, 777, -2500]) * 1e3
            out.append(("translate(%g,%g)" % (tx, ty), map_points(w, lambda x, y, tx=tx, ty=ty: (x + tx, y + ty)), (lambda x, y, tx=tx, ty=ty: (x + tx, y + ty)), True))
        phi = rng.choice([30, 90, 137.5, -45, 180, 271])
        c, s = math.cos(math.radians(phi)), math.sin(math.radians(phi))
        # plume rotation angles are measured clockwise from the Y axis: a counter-clockwise rotation of the world by phi lowers them by phi
        out.append(("rotate(%g)" % phi, map_points(w, lambda x, y: (c * x - s * y, s * x + c * y), lambda a: a - phi), (lambda x, y: (c * x - s * y, s * x + c * y)), False))
    return out


def to3(g, sp, depth):
    return g.point3(sp, depth)


class RidgeCase:
    """a structured spherical world: one oceanic plate whose cooling model has an oblique ridge with a different spreading velocity at every ridge point"""
    spherical = True
    radius = 6371000

    def __init__(self, rng):
        self.rng = rng
        lon0 = rng.choice([-170, -120, -40, 10, 95, 150]) + rng.choice([0, 0.5, 2.25])
        lat0 = rng.choice([-30, -10, 5, 20])
        w, h = rng.choice([20, 25, 30]), rng.choice([20, 30])
        self.box = (lon0, lat0, w, h)
        npts = rng.choice([2, 2, 3])
        ridge = [[lon0 + w * (0.2 + 0.6 * j / (npts - 1)) + rng.choice([-1.5, 0, 1.25]), lat0 + h * (0.3 + 0.3 * j / (npts - 1)) + rng.choice([-1, 0, 2.5])] for j in range(npts)]
        model = rng.choice(["half space model", "half space model", "plate model"])
        m = {"model": model, "min depth": 0, "max depth": rng.choice([100e3, 150e3]), "top temperature": 273, "bottom temperature": rng.choice([1573, -1]),
             "spreading velocity": [[0, [[rng.choice([0.01, 0.02, 0.04, 0.08]) for _ in ridge]]]], "ridge coordinates": [ridge]}
        while len(set(m["spreading velocity"][0][1][0])) < 2:
            m["spreading velocity"][0][1][0][0] = rng.choice([0.005, 0.03, 0.1])
        if rng.random() < 0.5:
            # two ridges joined by an oblique transform fault: which ridge a point belongs to is decided by a side test against the transform
            sh = rng.choice([-2.0, 1.5, 3.0])
            ra = [[lon0 + w * 0.15, lat0 + h * 0.08], [lon0 + w * 0.3 + rng.choice([-1, 0, 1.25]), lat0 + h * 0.45]]
            rb = [[lon0 + w * 0.55 + rng.choice([-1.5, 0, 2]), lat0 + h * 0.45 + sh], [lon0 + w * 0.75, lat0 + h * 0.93]]
            m["ridge coordinates"] = [ra, rb]
            m["spreading velocity"] = [[0, [[rng.choice([0.01, 0.02]), rng.choice([0.04, 0.08])], [rng.choice([0.03, 0.06]), rng.choice([0.005, 0.1])]]]]
        self.w = {"version": "1.1", "coordinate system": {"model": "spherical", "depth method": "starting point"},
                  "features": [{"model": "oceanic plate", "name": "o", "coordinates": [[lon0, lat0], [lon0 + w, lat0], [lon0 + w, lat0 + h], [lon0, lat0 + h]], "max depth": 250e3,
                                "temperature models": [m]}]}

    def world(self):
        return self.w

    def step(self):
        return 0.25

    def point3(self, sp, depth):
        rr = self.radius - depth
        lon, lat = math.radians(sp[0]), math.radians(sp[1])
        cl = rr * math.sin(0.5 * math.pi - lat)
        return [cl * math.cos(lon), cl * math.sin(lon), rr * math.cos(0.5 * math.pi - lat)]

    def queries(self, n):
        lon0, lat0, w, h = self.box
        return [([lon0 + w * self.rng.uniform(0.05, 0.95), lat0 + h * self.rng.uniform(0.05, 0.95)], float(self.rng.choice([5e3, 20e3, 45e3, 80e3]))) for _ in range(n)]


class SlabRidgeCase(RidgeCase):
    """a structured spherical world: a slab with the mass conserving temperature whose ridge lies 30-90 degrees west of the trench, with a subducting velocity that differs
    from the spreading velocity and per-point spreading velocities - the ridge kernel's four outputs all matter, and under a longitude offset the far copy of the query
    (point +- 2 pi) becomes the one that is projected"""
    def __init__(self, rng):
        self.rng = rng
        lon0 = rng.choice([-150, -60, 20, 60, 100]) + rng.choice([0, 0.5, 2.25])
        lat0 = rng.choice([-20, 0, 10])
        gap = rng.choice([30, 60, 90])
        self.trench = lon0 + gap + 60
        sv = rng.choice([0.05, 0.08]); sub = rng.choice([0.02, 0.03, sv])
        mc = {"model": "mass conserving", "density": 3300, "thermal conductivity": 3.3, "adiabatic heating": rng.random() < 0.7,
              "spreading velocity": rng.choice([sv, [[0, [[sv, sv * 0.5]]]]]), "subducting velocity": sub,
              "ridge coordinates": [[[lon0, lat0 + rng.choice([-3, 0, 2])], [lon0 + 60, lat0 + rng.choice([-2, 0, 3])]]], "coupling depth": 80e3, "taper distance": 100e3,
              "min distance slab top": -100e3, "max distance slab top": 150e3, "reference model name": rng.choice(["half space model", "plate model"])}
        self.lat0 = lat0
        if rng.random() < 0.4:
            # a vertical fault instead: the points exactly below its trace are INTERIOR points (distance 0 from the fault plane), so the 'check point is on or below the
            # trench' branch of the frame construction is reached away from any membership boundary
            self.w = {"version": "1.1", "coordinate system": {"model": "spherical", "depth method": "begin segment"},
                      "features": [{"model": "fault", "name": "s", "coordinates": [[self.trench, lat0 - 5], [self.trench, lat0 + 5]], "dip point": [self.trench + 10, lat0],
                                    "segments": [{"length": 400e3, "thickness": [150e3], "angle": [90]}],
                                    "temperature models": [{"model": "linear", "max distance fault center": 75e3, "center temperature": 400, "side temperature": 1500}]}]}
            return
        self.w = {"version": "1.1", "coordinate system": {"model": "spherical", "depth method": "begin segment"},
                  "features": [{"model": "subducting plate", "name": "s", "coordinates": [[self.trench, lat0 - 5], [self.trench + rng.choice([0, 1]), lat0 + 5]], "dip point": [self.trench + 10, lat0],
                                "segments": [{"length": 400e3, "thickness": [150e3], "top truncation": [-100e3], "angle": [rng.choice([30, 45, 60])]}], "temperature models": [mc]}]}

    def queries(self, n):
        r = self.rng
        qs = [([self.trench + r.uniform(0.1, 2.5), self.lat0 + r.uniform(-4, 4)], float(r.choice([20e3, 60e3, 120e3, 200e3]))) for _ in range(n)]
        # exactly below the trench: its two end coordinates and (when the trench runs along a meridian) points of the line between them - the 'check point is on or below the
        # trench' branch of the slab frame
        cs = self.w["features"][0]["coordinates"]
        qs[0] = (list(cs[0]), float(r.choice([10e3, 50e3])))
        qs[1] = (list(cs[1]), float(r.choice([10e3, 50e3])))
        if cs[0][0] == cs[1][0]:
            qs[2] = ([cs[0][0], self.lat0 + r.choice([-2.5, 0.0, 1.25])], float(r.choice([10e3, 50e3, 90e3])))
        return qs


class TrenchCase:
    """a structured Cartesian world: a long slab or fault (3-4 trench vertices over ~1500-3000 km in a random direction, listed in a random order of
    east/west and north/south) with a short reach, over an oceanic plate; queries all along the trench; moved by random rotations.  (Anything a feature
    precomputes per axis - the culling box - must follow the orientation.)"""
    spherical = False

    def __init__(self, rng):
        self.rng = rng
        az = rng.uniform(0, 2 * math.pi)
        ln = rng.choice([1500e3, 2200e3, 3000e3])
        x0, y0 = rng.uniform(-2e6, 2e6), rng.uniform(-2e6, 2e6)
        n = rng.choice([3, 4])
        d, nrm = (math.cos(az), math.sin(az)), (-math.sin(az), math.cos(az))
        side = rng.choice([-1, 1])
        self.pts = []
        for j in range(n):
            t = ln * j / (n - 1)
            off = 0.0 if j in (0, n - 1) else rng.uniform(-0.05, 0.05) * ln
            self.pts.append([round(x0 + d[0] * t + nrm[0] * off, 1), round(y0 + d[1] * t + nrm[1] * off, 1)])
        self.nrm = (nrm[0] * side, nrm[1] * side)
        mid = self.pts[n // 2]
        fault = rng.random() < 0.35
        seg = {"length": rng.choice([150e3, 250e3]), "thickness": [rng.choice([60e3, 100e3])], "angle": [rng.choice([30, 45, 60, 90])] if fault else [rng.choice([20, 40]), rng.choice([45, 70])]}
        f = {"model": "fault" if fault else "subducting plate", "name": "L", "coordinates": self.pts, "dip point": [round(mid[0] + self.nrm[0] * 4e5, 1), round(mid[1] + self.nrm[1] * 4e5, 1)],
             "segments": [seg], "temperature models": [{"model": "uniform", "temperature": 600}],
             "composition models": [{"model": "uniform", "compositions": [1]}]}
        big = 6e6
        self.w = {"version": "1.1", "features": [
            {"model": "oceanic plate", "name": "O", "coordinates": [[x0 - big, y0 - big], [x0 + big, y0 - big], [x0 + big, y0 + big], [x0 - big, y0 + big]], "max depth": 300e3,
             "temperature models": [{"model": "linear", "max depth": 300e3, "top temperature": 300, "bottom temperature": 1600}], "composition models": [{"model": "uniform", "compositions": [0]}]}, f]}

    def world(self):
        return self.w

    def step(self):
        return 1e4

    def point3(self, sp, depth):
        return [sp[0], sp[1], 1000e3 - depth]

    def queries(self, n):
        r, out = self.rng, []
        for _ in range(n):
            j = r.randrange(len(self.pts) - 1)
            t = r.uniform(0.02, 0.98)
            a, b = self.pts[j], self.pts[j + 1]
            u = r.uniform(-30e3, 180e3)
            out.append(([a[0] + (b[0] - a[0]) * t + self.nrm[0] * u, a[1] + (b[1] - a[1]) * t + self.nrm[1] * u], float(r.uniform(2e3, 160e3))))
        return out

    def motions(self, rng, w):
        out = []
        for _ in range(3):
            phi = rng.uniform(0, 360)
            tx, ty = rng.choice([0, 250, -1300, 4000]) * 1e3, rng.choice([0, 90, 777, -2500]) * 1e3
            c, s = math.cos(math.radians(phi)), math.sin(math.radians(phi))
            fm = (lambda x, y, c=c, s=s, tx=tx, ty=ty: (c * x - s * y + tx, s * x + c * y + ty))
            out.append(("rotate(%.3f)+translate(%g,%g)" % (phi, tx, ty), map_points(w, fm, lambda a, phi=phi: a - phi), fm, False))
        return out


def gen_case(rng, decl, spherical, tier):
    if spherical == "trench":
        g = TrenchCase(rng)
        return g, g.world(), g.queries(budget(tier, 20, 40))
    if spherical == "slabridge":
        g = SlabRidgeCase(rng)
        return g, g.world(), g.queries(budget(tier, 14, 30))
    if spherical == "ridge":
        g = RidgeCase(rng)
        return g, g.world(), g.queries(budget(tier, 14, 30))
    g = WorldGen(random.Random(rng.getrandbits(64)), schema=decl, spherical=spherical, with_lines=True, with_random=False, max_features=3, with_cross=False)
    w = g.world()
    pos = g.surface_positions(w)
    ds = g.depths_of_interest(w)
    qs = []
    for _ in range(budget(tier, 14, 30)):
        sp = rng.choice(pos)
        if rng.random() < 0.6:      # move off the exact vertex / edge positions (boundary points are skipped anyway)
            sp = [sp[0] + rng.uniform(-1, 1) * g.step() * 3, sp[1] + rng.uniform(-1, 1) * g.step() * 3]
        d = rng.choice(ds) + rng.choice([0, 137.0, -250.0, 1e3]) if rng.random() < 0.7 else rng.uniform(0, 600e3)
        qs.append((sp, float(d)))
    return g, w, qs


def neighbours(g, sp, d, spherical):
    h = 1.0 / 111e3 if spherical else 1.0          # ~1 m
    return [([sp[0] + h, sp[1]], d), ([sp[0] - h, sp[1]], d), ([sp[0], sp[1] + h], d), ([sp[0], sp[1] - h], d), (sp, d + 1.0), (sp, d - 1.0)]


def micro_neighbours(sp, d, spherical):
    h = 1e-9 if spherical else 1e-4             # ~0.1 mm
    return [([sp[0] + h, sp[1]], d), ([sp[0] - h, sp[1]], d), ([sp[0], sp[1] + h], d), ([sp[0], sp[1] - h], d), (sp, d + 1e-4), (sp, d - 1e-4)]


def on_discontinuity(g, path_a, path_b, sp, d, fpt, spherical):
    """does the library's answer jump within 0.1 mm of the query in the original or in the moved world?  (The closest-point search on a trench curve stops at
    a tolerance and its starting piece changes at certain positions - e.g. exactly above the middle of a trench - so the reported slab distance jumps by ~0.1 m
    there; which side an exact such point falls on is decided by the rounding of the moved coordinates.)  A continuous field changes by less than the comparison
    tolerance over 0.1 mm."""
    lines = ["world a %s -" % path_a, "world b %s -" % path_b]
    for (sp2, d2) in [(sp, d)] + micro_neighbours(sp, d, spherical):
        lines.append(q3("a", to3(g, sp2, d2), d2, PROPS))
    for (sp2, d2) in [(sp, d)] + micro_neighbours(sp, d, spherical):
        lines.append(q3("b", to3(g, list(fpt(sp2[0], sp2[1])), d2), d2, PROPS))
    rc, out, err = proto.run_harness(lines)
    if rc != 0 or len(out) != len(lines) or out[:2] != ["ok", "ok"]:
        return False
    # a jump that belongs to the geometry shows in BOTH frames (rounding may move it by far less than 0.1 mm); a jump in one frame only is a disagreement about the structure
    jumps = []
    for blk in (out[2:9], out[9:16]):
        ans = [parse_answer(o) for o in blk]
        if any(a[0] != "ok" for a in ans):
            jumps.append(True); continue
        c = ans[0][1]
        jumps.append(any(len(a[1]) != len(c) or any(not close_vals(x, y) for x, y in zip(a[1], c)) for a in ans[1:]))
    return all(jumps)


def collinear_trench_differs(g, w, w2, sp, d, fpt, spherical):
    """is there a slab or fault with three consecutive (nearly) collinear trench coordinates whose closest-trench-point differs between the two worlds?
    (Recorded finding of C06/C10: on collinear coordinates the side tests that orient the control points of the trench curve are decided by the sign of a cross product
    that is zero - after a rotation it is rounding noise - so the two frames can build DIFFERENT curves (a control point flipped), or the same overshooting curve on
    whose turning point the closest-point search lands in one frame only.)  Asked of the Bezier kernel directly, on the coordinates of each such feature in both frames."""
    lines, n = [], 0
    for f, f2 in zip(w.get("features", []), w2.get("features", [])):
        if f.get("model") not in ("subducting plate", "fault"):
            continue
        cs = f["coordinates"]
        col = False
        for i in range(len(cs) - 2):
            ax, ay = cs[i + 1][0] - cs[i][0], cs[i + 1][1] - cs[i][1]
            bx, by = cs[i + 2][0] - cs[i + 1][0], cs[i + 2][1] - cs[i + 1][1]
            if abs(ax * by - ay * bx) <= 1e-6 * math.hypot(ax, ay) * math.hypot(bx, by):
                col = True; break
        if not col:
            continue
        k = (math.pi / 180.0) if spherical else 1.0
        for (coords, q) in ((cs, sp), (f2["coordinates"], list(fpt(sp[0], sp[1])))):
            vals = [v * k for c in coords for v in c] + [q[0] * k, q[1] * k]
            lines.append("kbez %d %d %s" % (int(spherical), len(coords), " ".join(fhex(v) for v in vals)))
        n += 1
    if not n:
        return False
    # (a) the library's own distance_to_plane of each such feature in the two worlds (features are given a name for the purpose: names influence nothing else)
    wa, wb = copy.deepcopy(w), copy.deepcopy(w2)
    names = []
    for k, (f, f2) in enumerate(zip(wa.get("features", []), wb.get("features", []))):
        if f.get("model") in ("subducting plate", "fault"):
            cs = f["coordinates"]
            if any(abs((cs[i + 1][0] - cs[i][0]) * (cs[i + 2][1] - cs[i + 1][1]) - (cs[i + 1][1] - cs[i][1]) * (cs[i + 2][0] - cs[i + 1][0])) <=
                   1e-6 * math.hypot(cs[i + 1][0] - cs[i][0], cs[i + 1][1] - cs[i][1]) * math.hypot(cs[i + 2][0] - cs[i + 1][0], cs[i + 2][1] - cs[i + 1][1]) for i in range(len(cs) - 2)):
                f["name"] = f2["name"] = "collinear%d" % k
                names.append(f["name"])
    wd = proto.workdir("C08_replay")
    pa, pb = os.path.join(wd, "col_a.wb"), os.path.join(wd, "col_b.wb")
    json.dump(wa, open(pa, "w")); json.dump(wb, open(pb, "w"))
    qa, qb = to3(g, sp, d), to3(g, list(fpt(sp[0], sp[1])), d)
    dl = ["world a %s -" % pa, "world b %s -" % pb]
    for nm in names:
        dl.append("dist a %s %s %s" % (nm, " ".join(fhex(v) for v in qa), fhex(d)))
        dl.append("dist b %s %s %s" % (nm, " ".join(fhex(v) for v in qb), fhex(d)))
    rc, out, err = proto.run_harness(dl)
    if rc == 0 and len(out) == len(dl) and out[:2] == ["ok", "ok"]:
        for k in range(len(names)):
            a, b = parse_answer(out[2 + 2 * k]), parse_answer(out[3 + 2 * k])
            if a[0] != b[0] or (a[0] == "ok" and any(not close_vals(x, y) for x, y in zip(a[1], b[1]))):
                return True
    # (b) the Bezier kernel on the coordinates
    rc, out, err = proto.run_harness(lines)
    if rc != 0 or len(out) != len(lines):
        return False
    for i in range(n):
        a, b = parse_answer(out[2 * i]), parse_answer(out[2 * i + 1])
        if a[0] != b[0]:
            return True
        if a[0] == "ok":
            da, db = abs(a[1][0]), abs(b[1][0])
            if (math.isinf(da) != math.isinf(db)) or (not math.isinf(da) and abs(da - db) > 1e-9 * max(1.0, da, db)) or a[1][2] != b[1][2] or abs(a[1][1] - b[1][1]) > 1e-6:
                return True
    return False


def close_vals(a, b):
    if a == b:
        return True
    if any(math.isnan(x) or math.isinf(x) for x in (a, b)):
        return False
    return abs(a - b) <= 1e-6 * max(abs(a), abs(b)) + 1e-5


def triangulations_differ(path_a, path_b, fpt, spherical):
    """do the depth surfaces of the original and of the moved world use different triangulations (after mapping the original's nodes with the motion)?
    Both worlds are loaded once more with the hook that dumps every non-constant surface."""
    aux_a, aux_b = path_a + ".c08aux", path_b + ".c08aux"
    rc, out, err = proto.run_harness(["world a %s - aux %s" % (path_a, aux_a), "world b %s - aux %s" % (path_b, aux_b)])
    if rc != 0 or out[:2] != ["ok", "ok"]:
        return False

    def read(path, mp):
        surfaces, cur = [], None
        for line in open(path):
            w = line.split()
            if not w:
                continue
            if w[0] == "surface":
                cur = set(); surfaces.append(cur)
            elif w[0] == "t" and cur is not None:
                v = [proto.unhex(t) for t in w[1:]]
                tri = []
                for k in range(3):
                    x, y = v[3 * k], v[3 * k + 1]
                    if spherical:
                        x, y = math.degrees(x), math.degrees(y)
                    x, y = mp(x, y)
                    # the nodal value is part of the signature: with a point listed twice (two values at one position) the two worlds can pick different copies
                    tri.append((round(x, 6 if spherical else 1), round(y, 6 if spherical else 1), round(v[3 * k + 2], 3)))
                cur.add(frozenset(tri))
        return surfaces
    try:
        sa, sb = read(aux_a, fpt), read(aux_b, lambda x, y: (x, y))
    except Exception:
        return False
    return len(sa) == len(sb) and any(x != y for x, y in zip(sa, sb))


def differs(x, y):
    """a neighbour 1 m away answers differently: the tag or any composition / grains slot changes, or the temperature jumps by more than 1 K
    (a feature painted over by a later one still shows in the slots the later one does not write)"""
    if len(x) != len(y):
        return True
    if abs(x[0] - y[0]) > 1.0 or x[-1] != y[-1]:
        return True
    return any(abs(p - q) > 1e-4 * max(1.0, abs(p), abs(q)) for p, q in zip(x[1:-1], y[1:-1]))


def oracle(seed, tier):
    rng = random.Random(seed * 4099 + 8)
    decl = json.load(open(proto.schema()[0]))
    wdir = proto.workdir("C08")
    viol, samples = [], []
    cases = nontriv = skipped = 0
    dist = {}
    for wi in range(budget(tier, 36, 400)):
        spherical = wi % 2 == 0
        # every sixth world: the structured oblique-ridge case (ages from a ridge with varying spreading velocity)
        # every sixth world: a long Cartesian trench under random rotations
        g, w, qs = gen_case(rng, decl, "ridge" if wi % 6 == 4 else ("trench" if wi % 6 == 1 else ("slabridge" if wi % 6 == 2 else spherical)), tier)
        p0 = os.path.join(wdir, "o_%d.wb" % wi)
        json.dump(w, open(p0, "w"))
        lines = ["world a %s -" % p0]
        for (sp, d) in qs:
            lines.append(q3("a", to3(g, sp, d), d, PROPS))
            for (sp2, d2) in neighbours(g, sp, d, spherical):
                lines.append(q3("a", to3(g, sp2, d2), d2, PROPS))
        mv = g.motions(rng, w) if hasattr(g, "motions") else motions(rng, w, spherical)
        if spherical:
            mv.append(("query longitude +-360", w, (lambda x, y: (x + 360 if x < 0 else x - 360, y)), True))
        for mi, (name, w2, fpt, exact) in enumerate(mv):
            p2 = os.path.join(wdir, "m_%d_%d.wb" % (wi, mi))
            json.dump(w2, open(p2, "w"))
            lines.append("world b%d %s -" % (mi, p2))
            for (sp, d) in qs:
                lines.append(q3("b%d" % mi, to3(g, list(fpt(sp[0], sp[1])), d), d, PROPS))
                for (sp2, d2) in neighbours(g, sp, d, spherical):
                    lines.append(q3("b%d" % mi, to3(g, list(fpt(sp2[0], sp2[1])), d2), d2, PROPS))
        rc, out, err = proto.run_harness(lines)
        if rc != 0 or len(out) != len(lines):
            viol.append({"what": "library died on an original/moved world pair: rc=%s answered %d of %d %s" % (rc, len(out), len(lines), err[-300:]), "world_json": w, "probe": "crash"})
            continue
        if out[0] != "ok":
            continue            # the generator produced a world the library refuses (not this property's business)
        k = 1
        base = []
        for (sp, d) in qs:
            a = parse_answer(out[k])
            nb = [parse_answer(out[k + 1 + j]) for j in range(6)]
            k += 7
            ok = a[0] == "ok" and all(n[0] == "ok" for n in nb)
            boundary = True
            if ok:
                boundary = any(differs(n[1], a[1]) for n in nb)
            base.append((a, boundary, nb))
        k0 = k
        for mi, (name, w2, fpt, exact) in enumerate(mv):
            kind = name.split("(")[0].split("+")[0].split("-")[0]
            k = k0 + mi * (1 + 7 * len(qs))
            if out[k] != "ok":
                viol.append({"what": "the moved world (%s) is refused although the original is accepted: %s" % (name, out[k][:200]), "world_json": w, "moved_world_json": w2, "probe": "moved-world-refused"})
                continue
            k += 1
            for qi, (sp, d) in enumerate(qs):
                b = parse_answer(out[k])
                nb = [parse_answer(out[k + 1 + j]) for j in range(6)]
                k += 7
                a, boundary, nb_a = base[qi]
                cases += 1
                # the moved query may itself sit on a decision boundary of the moved world (rounding of the moved coordinates decides there)
                if b[0] == "ok" and all(n[0] == "ok" for n in nb):
                    boundary = boundary or any(differs(n[1], b[1]) for n in nb)
                elif b[0] != "ok":
                    # the moved query throws (e.g. a polygon vertex that rounding puts outside every triangle of a depth surface): a boundary point
                    # unless its six neighbours all answer, and alike
                    boundary = boundary or not all(n[0] == "ok" for n in nb) or any(differs(n[1], nb[0][1]) for n in nb)
                if boundary or a[0] != "ok":
                    skipped += 1
                    continue
                dist[kind] = dist.get(kind, 0) + 1
                if a[1][-1] != -1.0:
                    nontriv += 1
                bad = None
                if b[0] != "ok":
                    bad = "the moved query fails (%s)" % (b,)
                elif a[1][-1] != b[1][-1]:
                    bad = "tag %g became %g" % (a[1][-1], b[1][-1])
                else:
                    for si, (x, y) in enumerate(zip(a[1], b[1])):
                        # 'up to rounding': the library's closest-point search stops at a tolerance, so the slab/fault distance carries ~0.1-0.3 m of noise that depends on the
                        # frame; a field with a steep gradient (1100 K over 75 km across a fault) turns that into more than the relative tolerance.  Allowed: what a displacement
                        # of the query by half a metre changes, measured on the six neighbours 1 m away in either frame
                        slack = 0.5 * max([abs(n[1][si] - x) for n in nb_a if n[0] == "ok" and len(n[1]) == len(a[1])] + [abs(n[1][si] - y) for n in nb if n[0] == "ok" and len(n[1]) == len(b[1])] + [0.0])
                        if not close_vals(x, y) and not (abs(x - y) <= slack):
                            bad = "output slot %d (%s) %r became %r" % (si, ["temperature", "composition 0", "composition 1", "composition 2", "composition 3"][si] if si < 5 else "grains", x, y)
                            break
                if bad and on_discontinuity(g, p0, os.path.join(wdir, "m_%d_%d.wb" % (wi, mi)), sp, d, fpt, spherical):
                    skipped += 1; dist["on-discontinuity"] = dist.get("on-discontinuity", 0) + 1
                    continue
                if bad:
                    p2_ = os.path.join(wdir, "m_%d_%d.wb" % (wi, mi))
                    nonunique = w2 is not w and triangulations_differ(p0, p2_, fpt, spherical)
                    if nonunique:
                        bad += " [the two worlds triangulate a depth surface differently: its Delaunay triangulation is not unique]"
                    collinear = (not nonunique) and w2 is not w and collinear_trench_differs(g, w, w2, sp, d, fpt, spherical)
                    if collinear:
                        bad += " [a trench with three collinear coordinates: its closest-trench-point differs between the two frames]"
                    viol.append({"probe": "depth-surface-triangulation-not-unique" if nonunique else ("collinear-trench-joint" if collinear else "motion:%s" % kind),
                                 "what": "%s world: %s under %s at surface position %s depth %g" % ("spherical" if spherical else "cartesian", bad, name, [round(v, 6) for v in sp], d),
                                 "world_json": w, "moved_world_json": w2, "world": p0, "moved_world": os.path.join(wdir, "m_%d_%d.wb" % (wi, mi)), "motion": name,
                                 "features": [f["model"] for f in w["features"]], "depth": float(d).hex(),
                                 "query3": [float(x).hex() for x in to3(g, sp, d)], "moved_query3": [float(x).hex() for x in to3(g, list(fpt(sp[0], sp[1])), d)]})
                    break
        if len(samples) < 2 and mv:
            samples.append({"world": json.dumps(w)[:500], "motions": [m[0] for m in mv], "queries": len(qs)})
    return {"violations": trim_violations(viol, 20), "summary": {"cases": cases, "violations": len(viol), "nontrivial": nontriv, "skipped_near_boundary": skipped, "compared_by_motion": dist}, "samples": samples}


def correspondence(seed, tier):
    rs = [corr.run_corr(seed * 1000 + 80, "C08_0", budget(tier, 16, 150), 20, {"with_random": False, "with_lines": True, "spherical": True})]
    rng = random.Random(seed * 65537 + 88)
    decl = json.load(open(proto.schema()[0]))
    wdir = proto.workdir("C08_moved")
    lines = []
    for wi in range(budget(tier, 14, 120)):
        spherical = wi % 3 != 2
        g, w, qs = gen_case(rng, decl, spherical, tier)
        for mi, (name, w2, fpt, exact) in enumerate(motions(rng, w, spherical)):
            if not exact:
                continue
            p2 = os.path.join(wdir, "m_%d_%d.wb" % (wi, mi))
            json.dump(w2, open(p2, "w"))
            lines.append("world m %s - aux %s.aux" % (p2, p2))
            for (sp, d) in qs[:10]:
                lines.append(q3("m", to3(g, list(fpt(sp[0], sp[1])), d), d, PROPS))
            lines.append("free m")
    rs.append(corr_lines(lines))
    return summarize_corr(rs)


def replay(rp):
    """re-run the recorded pair of worlds at the recorded (exact) query and its image; True = they agree now"""
    v = rp["violation"]
    print(json.dumps({k: v[k] for k in v if not k.endswith("world_json")}, indent=1)[:3000])
    if "query3" not in v or "moved_world_json" not in v:
        return False
    wdir = proto.workdir("C08_replay")
    pa, pb = os.path.join(wdir, "a.wb"), os.path.join(wdir, "b.wb")
    json.dump(v["world_json"], open(pa, "w")); json.dump(v["moved_world_json"], open(pb, "w"))
    d = float.fromhex(v["depth"])
    rc, out, err = proto.run_harness(["world a %s -" % pa, "world b %s -" % pb, q3("a", [float.fromhex(x) for x in v["query3"]], d, PROPS),
                                      q3("b", [float.fromhex(x) for x in v["moved_query3"]], d, PROPS)])
    print("original :", out[2:3], "\nmoved    :", out[3:4])
    if rc != 0 or len(out) != 4:
        return False
    a, b = parse_answer(out[2]), parse_answer(out[3])
    return a[0] == "ok" and b[0] == "ok" and len(a[1]) == len(b[1]) and all(close_vals(x, y) for x, y in zip(a[1], b[1]))
