"""C03 — outside every feature the background state is returned."""
import json, math, os, random
from common import *

LEVEL = "proof"
RULE = ("correspondence: worlds with 0-2 features, random global constants and gravity, both coordinate systems, depths incl. 0 and negative. oracle (library only): "
        "at every sampled point whose tag is -1 the answer must be the background of the statement — T = Tp*exp(alpha*g*depth/cp) (relative 1e-12 for the different "
        "association), compositions 0, grains 0, velocity 0 — and with 'force surface temperature' the temperature at depth 0 must be the surface temperature in every "
        "batching. non-trivial = point outside every feature of a world that has features, or a forced-surface sample.")
TRUSTED_BASE = ["libm exp of the platform for the oracle's independent evaluation"]
ASSUMPTIONS = []

DEFAULTS = {"potential mantle temperature": 1600.0, "surface temperature": 293.15, "thermal expansion coefficient": 3.5e-5, "specific heat": 1250.0}


def correspondence(seed, tier):
    rs = [corr.run_corr(seed * 1000 + 30 + k, "C03_%d" % k, budget(tier, 30, 400), 20, {"with_random": False, "max_features": 2, "with_lines": True}) for k in range(budget(tier, 1, 2))]
    return summarize_corr(rs)


def oracle(seed, tier):
    rng = random.Random(seed * 611953 + 3)
    wdir = proto.workdir("C03_oracle")
    worlds = gen_worlds(rng, wdir, "o", budget(tier, 25, 300), {"with_random": False, "max_features": 2, "with_lines": True})
    viol, cases, nontriv, samples = [], 0, 0, []
    lines, meta = [], []
    for wi, (path, w, g) in enumerate(worlds):
        lines.append("world w%d %s -" % (wi, path)); meta.append(None)
        for (p, d) in g.queries(w, budget(tier, 12, 20)):
            props = [(4, 0, 0), (1, 0, 0), (2, rng.randint(0, 3), 0), (3, rng.randint(0, 2), rng.choice([0, 1, 2])), (5, 0, 0), (1, 0, 0)]
            lines.append(q3("w%d" % wi, p, d, props)); meta.append((wi, p, d, props))
        # forced surface temperature at depth 0, several batchings
        for (p, _) in g.queries(w, 3):
            sp = p
            if not g.spherical:
                sp = [p[0], p[1], 1000e3]
            else:
                n = math.sqrt(sum(v * v for v in p)) or 1.0
                sp = [v / n * g.radius for v in p]
            for props in ([(1, 0, 0)], [(1, 0, 0), (2, 0, 0)], [(2, 0, 0), (4, 0, 0), (1, 0, 0), (5, 0, 0), (1, 0, 0)]):
                lines.append(q3("w%d" % wi, sp, 0.0, props)); meta.append((wi, sp, 0.0, props, "surface"))
        lines.append("free w%d" % wi); meta.append(None)
    rc, out, err = proto.run_harness(lines)
    if rc != 0 or len(out) != len(lines):
        viol.append({"what": "library crashed", "stderr": err[-300:], "next_cmd": lines[len(out)] if len(out) < len(lines) else None})
    for i, m in enumerate(meta[:len(out)]):
        if m is None:
            continue
        wi, p, d, props = m[:4]
        path, w, g = worlds[wi]
        a = parse_answer(out[i])
        if a[0] != "ok":
            continue
        cases += 1
        blocks = split_blocks(a[1], props)
        Tp = float(w.get("potential mantle temperature", DEFAULTS["potential mantle temperature"]))
        Ts = float(w.get("surface temperature", DEFAULTS["surface temperature"]))
        al = float(w.get("thermal expansion coefficient", DEFAULTS["thermal expansion coefficient"]))
        cp = float(w.get("specific heat", DEFAULTS["specific heat"]))
        gr = float(w.get("gravity model", {}).get("magnitude", 9.81))
        force = bool(w.get("force surface temperature", False))
        def bad(msg):
            viol.append({"what": msg, "world": path, "world_json": w, "point": p, "depth": d, "cmd": lines[i], "answer": out[i][:400]})
        if len(m) == 5:
            if force:
                nontriv += 1
                for pr, b in zip(props, blocks):
                    if pr[0] == 1 and b[0] != Ts:
                        bad("force surface temperature: temperature at depth 0 is %r, configured surface temperature %r (request %s)" % (b[0], Ts, props_str(props)))
            continue
        tag = blocks[0][0]
        if tag != -1.0:
            continue
        if w["features"]:
            nontriv += 1
        forced_here = force and abs(d) < 2 * 2.220446049250313e-16
        expT = Ts if forced_here else Tp * math.exp(al * gr * d / cp)
        for pr, b in zip(props, blocks):
            if pr[0] == 1:
                if not (b[0] == expT or abs(b[0] - expT) <= 1e-12 * abs(expT)):
                    bad("background temperature %r, statement gives %r" % (b[0], expT))
            elif pr[0] in (2, 3, 5):
                if any(v != 0.0 for v in b):
                    bad("background %s block is not zero" % {2: "composition", 3: "grains", 5: "velocity"}[pr[0]])
        if len(samples) < 3:
            samples.append({"world": path, "point": p, "depth": d, "answer": out[i][:200], "expected_T": expT})
    # ---- 'outside' decided from the file alone (not from the library's tag): one area feature over a square whose min and/or max depth is an affine depth surface
    # (every corner listed, so the local bound is that affine function) or a constant; points above the local top, below the local bottom and beside the polygon are
    # outside every feature and must carry the background state
    c2, n2 = geometric_outside(rng, tier, wdir, viol)
    return {"violations": trim_violations(viol, 20), "summary": {"cases": cases + c2, "violations": len(viol), "nontrivial": nontriv + n2, "outside_by_geometry": c2}, "samples": samples}


def geometric_outside(rng, tier, wdir, viol):
    cases = nontriv = 0
    kinds = ["continental plate", "oceanic plate", "mantle layer"]
    for wi in range(budget(tier, 12, 120)):
        kind = kinds[wi % 3]
        sph = (wi // 3) % 2 == 1
        c = [rng.choice([20.0, -60.0, 150.0]), rng.choice([10.0, -35.0])] if sph else [rng.choice([200e3, -350e3]), rng.choice([150e3, -500e3])]
        h = 6.0 if sph else 300e3
        sq = [[c[0] - h, c[1] - h], [c[0] + h, c[1] - h], [c[0] + h, c[1] + h], [c[0] - h, c[1] + h]]
        def surf(base, amp):
            bx, by = rng.choice([-1, 0.5, 1]) * amp / h, rng.choice([-0.5, 0, 1]) * amp / h
            fn = lambda q, base=base, bx=bx, by=by: base + bx * (q[0] - c[0]) + by * (q[1] - c[1])
            return fn, [[fn(p), [list(p)]] for p in sq]
        mode = ["min-surface/max-const", "min-const/max-surface", "both-surfaces", "min-surface/max-default"][(wi // 6) % 4]
        fmin, emin = ((lambda q: 100e3), 100e3) if mode == "min-const/max-surface" else surf(150e3, 60e3)
        if mode in ("min-const/max-surface", "both-surfaces"):
            fmax, emax = surf(420e3, 50e3)
        elif mode == "min-surface/max-default":
            fmax, emax = (lambda q: 1e300), None
        else:
            fmax, emax = (lambda q: 400e3), 400e3
        f = {"model": kind, "name": "f", "coordinates": sq, "min depth": emin, "temperature models": [{"model": "uniform", "temperature": 1234}],
             "composition models": [{"model": "uniform", "compositions": [0]}], "velocity models": [{"model": "uniform raw", "velocity": [0.01, 0.02, 0.03]}],
             "grains models": [{"model": "uniform", "compositions": [0], "grain sizes": [0.5], "rotation matrices": [[[0, -1, 0], [1, 0, 0], [0, 0, 1]]]}]}
        if emax is not None:
            f["max depth"] = emax
        Tp, al, cp, gr = rng.choice([1600.0, 1500.5]), rng.choice([3.5e-5, 2e-5]), rng.choice([1250.0, 1000.0]), rng.choice([9.81, 10.0])
        w = {"version": "1.1", "potential mantle temperature": Tp, "thermal expansion coefficient": al, "specific heat": cp, "gravity model": {"model": "uniform", "magnitude": gr}, "features": [f]}
        R = 6371000.0
        if sph:
            w["coordinate system"] = {"model": "spherical", "depth method": "begin segment"}
        path = os.path.join(wdir, "geo_%d.wb" % wi)
        json.dump(w, open(path, "w"))
        def p3(q, d):
            if not sph:
                return [q[0], q[1], 1000e3 - d]
            lo, la, r = math.radians(q[0]), math.radians(q[1]), R - d
            return [r * math.cos(la) * math.cos(lo), r * math.cos(la) * math.sin(lo), r * math.sin(la)]
        props = [(4, 0, 0), (1, 0, 0), (2, 0, 0), (3, 0, 1), (5, 0, 0)]
        pts = []
        for _ in range(budget(tier, 14, 30)):
            q = [c[0] + rng.uniform(-0.9, 0.9) * h, c[1] + rng.uniform(-0.9, 0.9) * h]
            lo, hi = fmin(q), fmax(q)
            pts.append((q, lo - rng.uniform(0.02, 0.9) * lo, "above the local top %.6g" % lo))
            if hi < 1e299:
                pts.append((q, hi + rng.uniform(2e3, 100e3), "below the local bottom %.6g" % hi))
            pts.append((q, rng.uniform(lo + 1e3, min(hi, 600e3) - 1e3), None))                      # inside: must carry the feature (non-vacuity of the geometry)
        for _ in range(4):
            q = [c[0] + rng.choice([-1, 1]) * rng.uniform(1.1, 1.6) * h, c[1] + rng.uniform(-1.5, 1.5) * h]
            pts.append((q, rng.uniform(0, 500e3), "beside the polygon"))
        lines = ["world w %s -" % path] + [q3("w", p3(q, d), d, props) for (q, d, _) in pts]
        rc, out, err = proto.run_harness(lines)
        if rc != 0 or len(out) != len(lines) or out[0] != "ok":
            viol.append({"what": "library failed on a structured outside-world: rc=%s %s %s" % (rc, out[:1], err[-200:]), "world_json": w}); continue
        for (q, d, why), o, cmd in zip(pts, out[1:], lines[1:]):
            a = parse_answer(o)
            cases += 1
            if a[0] != "ok":
                viol.append({"what": "query failed: %s" % (a,), "world_json": w, "cmd": cmd}); break
            b = split_blocks(a[1], props)
            if why is None:
                if b[0][0] != -1.0:
                    nontriv += 1
                else:
                    viol.append({"what": "%s (%s, %s): a point inside the declared footprint and depth range [%.6g, %.6g] (depth %.6g at %s) is not inside the feature" % (
                        kind, "spherical" if sph else "cartesian", mode, fmin(q), fmax(q), d, [round(v, 6) for v in q]), "world_json": w, "world": path, "cmd": cmd}); break
                continue
            expT = Tp * math.exp(al * gr * d / cp)
            ok = b[0][0] == -1.0 and abs(b[1][0] - expT) <= 1e-12 * abs(expT) and all(v == 0.0 for blk in b[2:] for v in blk)
            if not ok:
                viol.append({"what": "%s (%s, %s): the point at %s depth %.6g is %s, hence outside every feature, but the answer is tag %g, T %.9g (background %.9g), composition %g, velocity %s" % (
                    kind, "spherical" if sph else "cartesian", mode, [round(v, 6) for v in q], d, why, b[0][0], b[1][0], expT, b[2][0], b[4]), "world_json": w, "world": path, "cmd": cmd})
                break
    return cases, nontriv


def replay(rp):
    v = rp["violation"]
    wdir = proto.workdir("C03_replay")
    path = os.path.join(wdir, "replay.wb")
    json.dump(v["world_json"], open(path, "w"))
    w = v["cmd"].split(); w[1] = "r"
    rc, out, err = proto.run_harness(["world r %s -" % path, " ".join(w)])
    print("\n".join(out))
    return False
