"""C03 — outside every feature the background state is returned."""
import json, math, os, random
from common import *

LEVEL = "proof"
RULE = ("correspondence: worlds with 0-2 features, random global constants and gravity, both coordinate systems, depths incl. 0 and negative. oracle (library only): "
        "at every sampled point whose tag is -1 the answer must be the background of the statement — T = Tp*exp(alpha*g*depth/cp) (relative 1e-12 for the different "
        "association), compositions 0, grains 0, velocity 0 — and with 'force surface temperature' the temperature at depth 0 must be the surface temperature in every "
        "batching. non-trivial = point outside every feature of a world that has features, or a forced-surface sample.")
TRUSTED_BASE = ["libm exp of the platform for the oracle's independent evaluation"]
ASSUMPTIONS = []

DEFAULTS = {"potential mantle temperature": 1600.0, "surface temperature": 293.15, "thermal expansion coefficient": 3.5e-5, "specific heat": 1250.0}


def correspondence(seed, tier):
    rs = [corr.run_corr(seed * 1000 + 30 + k, "C03_%d" % k, budget(tier, 30, 400), 20, {"with_random": False, "max_features": 2, "with_lines": True}) for k in range(budget(tier, 1, 2))]
    return summarize_corr(rs)


def oracle(seed, tier):
    rng = random.Random(seed * 611953 + 3)
    wdir = proto.workdir("C03_oracle")
    worlds = gen_worlds(rng, wdir, "o", budget(tier, 25, 300), {"with_random": False, "max_features": 2, "with_lines": True})
    viol, cases, nontriv, samples = [], 0, 0, []
    lines, meta = [], []
    for wi, (path, w, g) in enumerate(worlds):
        lines.append("world w%d %s -" % (wi, path)); meta.append(None)
        for (p, d) in g.queries(w, budget(tier, 12, 20)):
            props = [(4, 0, 0), (1, 0, 0), (2, rng.randint(0, 3), 0), (3, rng.randint(0, 2), rng.choice([0, 1, 2])), (5, 0, 0), (1, 0, 0)]
            lines.append(q3("w%d" % wi, p, d, props)); meta.append((wi, p, d, props))
        # forced surface temperature at depth 0, several batchings
        for (p, _) in g.queries(w, 3):
            sp = p
            if not g.spherical:
                sp = [p[0], p[1], 1000e3]
            else:
                n = math.sqrt(sum(v * v for v in p)) or 1.0
                sp = [v / n * g.radius for v in p]
            for props in ([(1, 0, 0)], [(1, 0, 0), (2, 0, 0)], [(2, 0, 0), (4, 0, 0), (1, 0, 0), (5, 0, 0), (1, 0, 0)]):
                lines.append(q3("w%d" % wi, sp, 0.0, props)); meta.append((wi, sp, 0.0, props, "surface"))
        lines.append("free w%d" % wi); meta.append(None)
    rc, out, err = proto.run_harness(lines)
    if rc != 0 or len(out) != len(lines):
        viol.append({"what": "library crashed", "stderr": err[-300:], "next_cmd": lines[len(out)] if len(out) < len(lines) else None})
    for i, m in enumerate(meta[:len(out)]):
        if m is None:
            continue
        wi, p, d, props = m[:4]
        path, w, g = worlds[wi]
        a = parse_answer(out[i])
        if a[0] != "ok":
            continue
        cases += 1
        blocks = split_blocks(a[1], props)
        Tp = float(w.get("potential mantle temperature", DEFAULTS["potential mantle temperature"]))
        Ts = float(w.get("surface temperature", DEFAULTS["surface temperature"]))
        al = float(w.get("thermal expansion coefficient", DEFAULTS["thermal expansion coefficient"]))
        cp = float(w.get("specific heat", DEFAULTS["specific heat"]))
        gr = float(w.get("gravity model", {}).get("magnitude", 9.81))
        force = bool(w.get("force surface temperature", False))
        def bad(msg):
            viol.append({"what": msg, "world": path, "world_json": w, "point": p, "depth": d, "cmd": lines[i], "answer": out[i][:400]})
        if len(m) == 5:
            if force:
                nontriv += 1
                for pr, b in zip(props, blocks):
                    if pr[0] == 1 and b[0] != Ts:
                        bad("force surface temperature: temperature at depth 0 is %r, configured surface temperature %r (request %s)" % (b[0], Ts, props_str(props)))
            continue
        tag = blocks[0][0]
        if tag != -1.0:
            continue
        if w["features"]:
            nontriv += 1
        forced_here = force and abs(d) < 2 * 2.220446049250313e-16
        expT = Ts if forced_here else Tp * math.exp(al * gr * d / cp)
        for pr, b in zip(props, blocks):
            if pr[0] == 1:
                if not (b[0] == expT or abs(b[0] - expT) <= 1e-12 * abs(expT)):
                    bad("background temperature %r, statement gives %r" % (b[0], expT))
            elif pr[0] in (2, 3, 5):
                if any(v != 0.0 for v in b):
                    bad("background %s block is not zero" % {2: "composition", 3: "grains", 5: "velocity"}[pr[0]])
        if len(samples) < 3:
            samples.append({"world": path, "point": p, "depth": d, "answer": out[i][:200], "expected_T": expT})
    return {"violations": trim_violations(viol, 20), "summary": {"cases": cases, "violations": len(viol), "nontrivial": nontriv}, "samples": samples}


def replay(rp):
    v = rp["violation"]
    wdir = proto.workdir("C03_replay")
    path = os.path.join(wdir, "replay.wb")
    json.dump(v["world_json"], open(path, "w"))
    w = v["cmd"].split(); w[1] = "r"
    rc, out, err = proto.run_harness(["world r %s -" % path, " ".join(w)])
    print("\n".join(out))
    return False
