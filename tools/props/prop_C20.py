"""C20 — cooling-model temperatures stay within their end members and attain them at the boundaries."""
import json, math, os, random
from common import *
from prop_C05 import G, ridge_distance, YEAR, SQ

LEVEL = "proof"
RULE = ("correspondence: the general model-vs-library run restricted to worlds with oceanic plates / linear models (bit for bit); oracle (library alone): single-feature worlds with a replacing "
        "cooling-type model and physically ordered end members; probes along depth at a fixed position (30 depths incl. the model's own top and bottom), along age at fixed depth (moving away "
        "from the ridge), across and along slabs; checked: envelope [top, bottom] (rel. 1e-9), monotone in depth, antitone in age, boundary values attained; for mass-conserving and plate-model "
        "slab temperatures: surface temperature <= T <= max(ambient, adiabat(depth)). non-trivial = a probe inside the model's range.")
TRUSTED_BASE = ["erfc laws (erfc 0 = 1, erfc >= 0, antitone on [0,inf)) and sin(i*pi) = 0 are hypotheses of the theorems, sampled on libm by the oracle only",
                "mass conserving and slab plate-model temperatures are inside the Lean model since the second round (Model/Models/SlabTemp.lean, part of the correspondence); their envelope is proved only where stated in Properties/C20Slab.lean (outside-identity, reference-model bounds), the rest is the implementation-level oracle"]
ASSUMPTIONS = ["top <= bottom temperature; ages > 0; documented parameter ranges",
               "interior bounds of the truncated plate series are not theorems (the 100-term sum overshoots for very young plates: known finding)"]


def series_young(gl, age_s, D, v=None):
    """true when the 100th term of the plate series is not yet damped below double precision.  `plate model constant age` damps term i by
    exp(-kappa*age*(i*pi/D)^2); the ridge-based `plate model` by exp((Pe - sqrt(Pe^2 + i^2 pi^2)) * v*age/D) with Pe = v*D/(2*kappa), which for i*pi >> Pe
    falls only linearly in i (slow plates: v = 5 mm/yr, D = 150 km, 1.2 Myr: the 100th term is still 4e-5 K).  Young = damping exponent of term 100 below 40."""
    if v is None:
        return gl.kappa * age_s * (100 * math.pi / D) ** 2 < 40
    pe = v * D / (2 * gl.kappa)
    return (math.sqrt(pe * pe + (100 * math.pi) ** 2) - pe) * v * age_s / D < 40


def ocean_case(rng):
    w = {"version": "1.1", "features": []}
    gl = G(rng, w)
    name = rng.choice(["half space model", "plate model", "plate model constant age"])
    top = rng.choice([273.0, 293.15, 400.0]); bot = rng.choice([-1, 1573.0, 1600.0, 1400.0])
    D = rng.choice([95e3, 125e3, 150e3])
    f = {"model": "oceanic plate", "name": "o", "coordinates": [[-2000e3, -2000e3], [2000e3, -2000e3], [2000e3, 2000e3], [-2000e3, 2000e3]], "min depth": 0, "max depth": D}
    m = {"model": name, "min depth": 0, "max depth": D, "top temperature": top, "bottom temperature": bot}
    ridge = None
    if name == "plate model constant age":
        m["plate age"] = rng.choice([1e3, 1e5, 1e6, 2e7, 1e8])
    else:
        m["spreading velocity"] = v = rng.choice([0.005, 0.02, 0.05, 0.1])
        ridge = rng.choice([[[0, -3e6], [0, 3e6]], [[-300e3, -3e6], [100e3, 0], [-100e3, 3e6]], [[-3e6, -500e3], [3e6, 200e3]]])
        m["ridge coordinates"] = [ridge]
    f["temperature models"] = [m]
    w["features"].append(f)
    # every third case: the model's max depth is a depth SURFACE (affine: every corner listed with the value of one affine function, so the local base at a
    # position is that function whatever the triangulation); the plate is thinner than the surface's maximum almost everywhere
    dloc = (lambda q, D=D: D)
    if rng.random() < 0.35:
        ax, ay = rng.choice([0.0, 1e-2, -7.5e-3]), rng.choice([5e-3, -1e-2, 1.25e-2])
        dloc = (lambda q, D=D, ax=ax, ay=ay: D + ax * q[0] + ay * q[1])
        m["max depth"] = [[dloc(c), [list(c)]] for c in f["coordinates"]]
        f["max depth"] = 400e3
        D = max(dloc(c) for c in f["coordinates"])
    m["_dloc"] = dloc
    return w, gl, name, top, bot, D, ridge, m


def check_profile(vals, lo, hi, scale):
    tol = 1e-9 * scale
    return all(lo - tol <= v <= h + tol for v, h in zip(vals, hi)), all(b >= a - tol for a, b in zip(vals, vals[1:]))


def oracle(seed, tier):
    rng = random.Random(seed * 4241 + 20)
    wdir = proto.workdir("C20_oracle")
    viol, cases, nontriv, samples, dist = [], 0, 0, [], {}
    def run(w, pts, path):
        json.dump(w, open(path, "w"))
        lines = ["world w %s -" % path] + ["t3 w %s %s" % (" ".join(fhex(x) for x in [p[0], p[1], 1000e3 - d]), fhex(d)) for p, d in pts]
        rc, out, err = proto.run_harness(lines)
        if rc != 0 or len(out) != len(lines) or out[0] != "ok":
            return None, (rc, out[:1], err[-200:])
        return [parse_answer(o)[1][0] if parse_answer(o)[0] == "ok" else float("nan") for o in out[1:]], lines
    n = budget(tier, 40, 500)
    for wi in range(n):
        kind = ["ocean", "ocean", "linear", "slab"][wi % 4]
        path = os.path.join(wdir, "c_%d.wb" % wi)
        if kind == "ocean":
            w, gl, name, top, bot, D, ridge, m = ocean_case(rng)
            dloc = m.pop("_dloc")
            surface = isinstance(m["max depth"], list)
            dist[name + (" (max depth surface)" if surface else "")] = dist.get(name + (" (max depth surface)" if surface else ""), 0) + 1
            botf = (lambda d: gl.adiabat(d) if bot < 0 else bot)
            def bad(msg, probe=None, extra=None):
                v = {"what": "%s: %s" % (name, msg), "world_json": w, "world": path, "probe": probe}
                v.update(extra or {}); viol.append(v)
            # (1) depth profile at a fixed position, incl. both boundaries
            pos = [rng.uniform(-1500e3, 1500e3), rng.uniform(-1500e3, 1500e3)]
            Dl = dloc(pos)          # the model's own bottom at this position (D is the thickness the series uses: the surface's maximum)
            ds = [0.0] + sorted(rng.uniform(0, Dl) for _ in range(28)) + [Dl * (1 - 1e-12) if surface else Dl]
            vals, info = run(w, [(pos, d) for d in ds], path)
            if vals is None:
                bad("library failed %s" % (info,)); continue
            cases += len(ds); nontriv += len(ds)
            age_s = (m["plate age"] * YEAR) if ridge is None else ridge_distance(ridge, pos) / (m["spreading velocity"] / YEAR)
            vms = (m["spreading velocity"] / YEAR) if name == "plate model" else None
            young = name != "half space model" and series_young(gl, age_s, D, vms)
            probe = "plate-series-truncation-young-age" if young else None
            env, mono = check_profile(vals, top, [botf(d) for d in ds], 2000.0)
            if not env:
                k = next(i for i, (v, d) in enumerate(zip(vals, ds)) if not (top - 2e-6 <= v <= botf(d) + 2e-6))
                bad("temperature %.9g at depth %.6g outside [top %.6g, bottom %.9g] (age %.4g yr)" % (vals[k], ds[k], top, botf(ds[k]), age_s / YEAR), probe, {"cmd": info[k + 1]})
            elif not mono:
                k = next(i for i in range(len(vals) - 1) if vals[i + 1] < vals[i] - 2e-6)
                bad("temperature falls with depth: %.12g at %.8g m, %.12g at %.8g m (age %.4g yr)" % (vals[k], ds[k], vals[k + 1], ds[k + 1], age_s / YEAR), probe, {"cmd": info[k + 2]})
            if abs(vals[0] - top) > 1e-9 * 2000:
                bad("top temperature %.9g not attained at the model's top: %.12g" % (top, vals[0]), probe, {"cmd": info[1]})
            if name != "half space model" and abs(vals[-1] - botf(Dl)) > 1e-9 * 2000 + (1e-6 if surface else 0):
                bad("bottom temperature %.9g not attained at the model's bottom (depth %.6g%s): %.12g" % (botf(Dl), Dl, ", local value of the max depth surface whose maximum is %.6g" % D if surface else "", vals[-1]),
                    probe or ("plate-thickness-is-surface-maximum" if surface and Dl < D * (1 - 1e-9) else None), {"cmd": info[-1]})
            # (2) age profile at fixed depth: moving away from the ridge along +x from the closest point
            if ridge is not None:
                d0 = rng.uniform(2e3, 0.9 * min(dloc(c) for c in w["features"][0]["coordinates"]))
                y0 = rng.uniform(-1000e3, 1000e3)
                xs = sorted(rng.uniform(-1900e3, 1900e3) for _ in range(25))
                pts = sorted(((ridge_distance(ridge, [x, y0]), x) for x in xs))
                vals, info = run(w, [([x, y0], d0) for (r, x) in pts], path)
                if vals is None:
                    bad("library failed %s" % (info,)); continue
                cases += len(pts); nontriv += len(pts)
                ages = [r / (m["spreading velocity"] / YEAR) for r, x in pts]
                for k in range(len(vals) - 1):
                    if vals[k + 1] > vals[k] + 2e-6:
                        yg = name != "half space model" and series_young(gl, ages[k], D, vms)
                        bad("temperature rises with age at depth %.6g: %.12g at %.5g yr, %.12g at %.5g yr" % (d0, vals[k], ages[k] / YEAR, vals[k + 1], ages[k + 1] / YEAR),
                            "plate-series-truncation-young-age" if yg else None, {"cmd": info[k + 2]})
                        break
        elif kind == "linear":
            w = {"version": "1.1", "features": []}
            gl = G(rng, w)
            sub = rng.choice(["continental plate", "oceanic plate", "mantle layer", "subducting plate", "fault"])
            top = rng.choice([273.0, 600.0, -1]); bot = rng.choice([1300.0, 1700.0, -1])
            dist[sub + "/linear"] = dist.get(sub + "/linear", 0) + 1
            if sub in ("subducting plate", "fault"):
                fault = sub == "fault"
                th = rng.choice([100e3, 200e3]); half = th / 2 if fault else th
                dk = "fault center" if fault else "slab top"
                mn = rng.choice([0, 10e3]); mx = rng.choice([half, 0.6 * half])
                top, bot = abs(top) if top > 0 else 400.0, abs(bot) if bot > 0 else 1500.0
                m = {"model": "linear", "min distance " + dk: mn, "max distance " + dk: mx, ("center temperature" if fault else "top temperature"): top, ("side temperature" if fault else "bottom temperature"): bot}
                w["features"].append({"model": sub, "name": "l", "coordinates": [[-800e3, 0], [800e3, 0]], "dip point": [0, 1e7], "segments": [{"length": 400e3, "thickness": [th], "angle": [90]}], "temperature models": [m]})
                x0, d0 = rng.uniform(-500e3, 500e3), rng.uniform(10e3, 390e3)
                # the library's distance from the plane comes out of an iteration: stay 1 mm inside the range ends (membership exactly on a boundary is a rounding matter)
                ts = [mn + 1e-3] + sorted(rng.uniform(mn + 1e-3, mx - 1e-3) for _ in range(20)) + [mx - 1e-3]
                sgn = rng.choice([-1, 1]) if fault else -1
                vals, info = run(w, [([x0, sgn * t], d0) for t in ts], path)
                lo, hi = top, [bot] * len(ts)
            else:
                fmin = rng.choice([0, 30e3]); fmax = rng.choice([150e3, 250e3]); mn = rng.choice([0, 10e3, 50e3]); mx = rng.choice([120e3, 200e3, 300e3])
                w["features"].append({"model": sub, "name": "a", "coordinates": SQ, "min depth": fmin, "max depth": fmax,
                                      "temperature models": [{"model": "linear", "min depth": mn, "max depth": mx, "top temperature": top, "bottom temperature": bot}]})
                zt, zb = max(fmin, mn), min(fmax, mx)
                top = gl.adiabat(zt) if top < 0 else top; bot = gl.adiabat(zb) if bot < 0 else bot
                if top > bot:
                    top, bot = bot, top
                    w["features"][0]["temperature models"][0].update({"top temperature": top, "bottom temperature": bot})
                ts = [zt] + sorted(rng.uniform(zt, zb) for _ in range(20)) + [zb]
                vals, info = run(w, [([rng.uniform(-400e3, 400e3), rng.uniform(-400e3, 400e3)], t) for t in ts], path)
                lo, hi = top, [bot] * len(ts)
            if vals is None:
                viol.append({"what": "library failed %s" % (info,), "world_json": w}); continue
            cases += len(ts); nontriv += len(ts)
            # slab/fault: the distance from the plane is the result of a closest-point iteration that stops at a tolerance on the curve parameter; on this 1600 km trench the
            # foot is accurate to about a decimetre (measured: 0.11-0.13 m, see DESIGN section 13): 0.5 m of slack on the boundary value
            geo = 0.5 if sub in ("subducting plate", "fault") else 0.0
            env, mono = check_profile(vals, lo, hi, 2000.0)
            if not env or not mono:
                viol.append({"what": "%s linear: profile %s leaves [%.9g, %.9g] or is not monotone" % (sub, [float("%.7g" % v) for v in vals[:6]], lo, hi[0]), "world_json": w, "world": path, "cmd": info[1]})
            elif abs(vals[0] - lo) > 2e-6 + geo * abs(hi[-1] - lo) / (ts[-1] - ts[0]) or abs(vals[-1] - hi[-1]) > 2e-6 + geo * abs(hi[-1] - lo) / (ts[-1] - ts[0]):
                viol.append({"what": "%s linear: boundary temperatures %.9g / %.9g not attained: %.12g / %.12g" % (sub, lo, hi[-1], vals[0], vals[-1]), "world_json": w, "world": path, "cmd": info[1]})
        else:
            w = {"version": "1.1", "features": []}
            gl = G(rng, w)
            name = rng.choice(["mass conserving", "mass conserving", "plate model"])
            # incl. short slabs with long tapers (the taper starts above the coupling depth) and old, fast plates (cold slabs)
            dip = rng.choice([30, 45, 60]); L = rng.choice([160e3, 240e3, 320e3, 400e3, 700e3]); th = rng.choice([100e3, 150e3])
            v = rng.choice([0.02, 0.05, 0.08, 0.15])
            cold_short = name == "mass conserving" and (wi // 4) % 2 == 1
            if cold_short:
                # the structured corner: a short slab with a long taper that starts above the coupling depth, old and fast (cold); probed around the start of the taper
                L = rng.choice([160e3, 240e3, 320e3]); v = rng.choice([0.08, 0.15])
            if name == "mass conserving":
                m = {"model": "mass conserving", "min distance slab top": -100e3, "max distance slab top": 1.5 * th, "spreading velocity": v, "subducting velocity": v,
                     "ridge coordinates": [[[-3000e3, -rng.choice([500e3, 2000e3, 4000e3, 8000e3])], [3000e3, -rng.choice([500e3, 2000e3, 4000e3, 8000e3])]]], "coupling depth": rng.choice([80e3, 100e3, 120e3]),
                     "taper distance": rng.choice([50e3, 100e3, 150e3, 300e3]), "reference model name": rng.choice(["half space model", "plate model"]), "adiabatic heating": rng.random() < 0.8}
                if cold_short:
                    m["ridge coordinates"] = [[[-3000e3, -8000e3], [3000e3, -8000e3]]]; m["coupling depth"] = rng.choice([100e3, 120e3]); m["taper distance"] = rng.choice([150e3, 300e3])
                seg = {"length": L, "thickness": [1.5 * th], "top truncation": [-100e3], "angle": [dip]}
                tlo, thi = -95e3, 1.45 * th
            else:
                m = {"model": "plate model", "min distance slab top": 0, "max distance slab top": th, "plate velocity": v, "adiabatic heating": rng.random() < 0.8}
                seg = {"length": L, "thickness": [th], "angle": [dip]}
                tlo, thi = 1e3, th - 1e3
            dist["slab/" + name] = dist.get("slab/" + name, 0) + 1
            w["features"].append({"model": "subducting plate", "name": "s", "coordinates": [[-1500e3, 0], [1500e3, 0]], "dip point": [0, 1e7], "segments": [seg], "temperature models": [m]})
            th_r = math.radians(dip)
            pts = []
            for k in range(40 if not cold_short else 230):
                s = rng.uniform(5e3, L - 5e3); t = rng.uniform(tlo, thi)
                if cold_short and k >= 30:
                    s0 = max(5e3, L - m["taper distance"])
                    # the slab's cold core (a few km below its top) in the first kilometres of the taper: where a minimum temperature computed for the taper
                    # meets the one computed above the coupling depth
                    s = min(L - 5e3, max(5e3, s0 + rng.uniform(0, 6e3))); t = rng.uniform(0, 12e3)
                y, d = s * math.cos(th_r) - t * math.sin(th_r), s * math.sin(th_r) + t * math.cos(th_r)
                if d > 1e3:
                    pts.append(([rng.uniform(-800e3, 800e3), y], d))
            vals, info = run(w, pts, path)
            if vals is None:
                viol.append({"what": "library failed %s" % (info,), "world_json": w}); continue
            cases += len(pts)
            tsurf = 293.15
            for k, ((p, d), v_) in enumerate(zip(pts, vals)):
                amb = gl.adiabat(d)
                if v_ != amb:
                    nontriv += 1
                # the slab model adds and removes its anomaly from the ambient value (heat content arithmetic): where the anomaly has vanished the result equals the
                # adiabat up to a few ulps of 2000 K (observed: 3e-6 K): relative 1e-8
                if not (tsurf - 2e-5 <= v_ <= max(amb, gl.adiabat(d)) + 2e-5):
                    viol.append({"what": "slab %s: temperature %.9g at depth %.6g outside [surface temperature %.6g, max(ambient, adiabat) %.9g]" % (name, v_, d, tsurf, amb),
                                 "world_json": w, "world": path, "cmd": info[k + 1], "probe": "slab-" + name.replace(" ", "-") + "-envelope"})
                    break
        if len(samples) < 2:
            samples.append({"world": w})
    # ---- three corners of the slab models found by the proof attempt of their envelope (worker MQ: hypotheses the proofs forced), replayed on the library; recorded known findings
    c45 = math.cos(math.radians(45))
    def at(along, dist):
        return ([along * c45 - dist * c45, 0.0], along * c45 + dist * c45)
    def slab_world(seg, m):
        return {"version": "1.1", "potential mantle temperature": 1600, "thermal expansion coefficient": 0,
                "features": [{"model": "subducting plate", "name": "s", "coordinates": [[0, -500e3], [0, 500e3]], "dip point": [1e7, 0], "min depth": 0, "max depth": 1500e3, "segments": [seg], "temperature models": [m]}]}
    def mcm(ref, ridge_x, coupling):
        return {"model": "mass conserving", "min distance slab top": -100e3, "max distance slab top": 200e3, "spreading velocity": 0.05, "subducting velocity": 0.05, "density": 3300, "thermal conductivity": 3.3,
                "thermal diffusivity": 1e-6, "specific heat": 1250, "potential mantle temperature": 1600, "adiabatic heating": False, "coupling depth": coupling, "taper distance": 100e3, "forearc cooling factor": 1,
                "ridge coordinates": [[[ridge_x, -2000e3], [ridge_x, 2000e3]]], "reference model name": ref}
    corners = [
        ("slab-plate-model-series-at-trench", 273.15,
         slab_world({"length": 400e3, "thickness": [100e3], "angle": [45]}, {"model": "plate model", "plate velocity": 0.05, "density": 3300, "specific heat": 1250, "thermal conductivity": 2.5, "potential mantle temperature": 1600,
                                                                              "adiabatic heating": False, "max distance slab top": 100e3}),
         [at(a, d) for d in (100, 200, 250, 300) for a in (10.0, 100.0)]),
        ("mass-conserving-plate-reference-young-plate", 293.15,
         slab_world({"length": 1400e3, "thickness": [300e3], "top truncation": [-100e3], "angle": [45]}, mcm("plate model", -2.5e3, 100e3)),
         [at(a, d) for d in (6800, 7500, 8000, 8500) for a in (50.0, 1000.0)]),
        ("mass-conserving-coupling-depth-below-660km", 293.15,
         slab_world({"length": 1400e3, "thickness": [300e3], "top truncation": [-100e3], "angle": [45]}, mcm("half space model", -4000e3, 700e3)),
         [at(1075e3, d) for d in (0.0, 10e3, 20e3)]),
    ]
    for ci, (probe, tsurf, w, pts) in enumerate(corners):
        path = os.path.join(wdir, "corner_%d.wb" % ci)
        vals, info = run(w, pts, path)
        if vals is None:
            viol.append({"what": "library failed %s" % (info,), "world_json": w}); continue
        cases += len(pts); nontriv += len(pts)
        for k, ((p, d), v_) in enumerate(zip(pts, vals)):
            if not (tsurf - 2e-5 <= v_ <= 1600.0 + 2e-5):
                viol.append({"what": "slab %s: temperature %.9g at depth %.6g outside [surface temperature %.6g, ambient 1600] (point %.6g m from the trench)" % (w["features"][0]["temperature models"][0]["model"], v_, d, tsurf, p[0]),
                             "world_json": w, "world": path, "cmd": info[k + 1], "probe": probe})
                break
    return {"violations": trim_violations(viol, 30), "summary": {"cases": cases, "violations": len(viol), "nontrivial": nontriv, "input_distribution": dist}, "samples": samples}


def correspondence(seed, tier):
    n = budget(tier, 25, 300)
    rs = [corr.run_corr(seed * 1000 + 200 + k, "C20_%d" % k, n, 25, {"with_random": False, "with_lines": True, "allow": ["oceanic plate", "oceanic plate", "continental plate", "mantle layer", "subducting plate", "fault"], "slab_models": 0.5}) for k in range(budget(tier, 1, 3))]
    # slabs only, mostly with the slab-only temperature models (mass conserving incl. short slabs / long tapers, plate model)
    rs += [corr.run_corr(seed * 1000 + 207 + k, "C20_slab_%d" % k, max(40, n // 2), 40, {"with_random": False, "with_lines": True, "allow": ["subducting plate"], "slab_models": 0.8}) for k in range(budget(tier, 1, 3))]
    # the structured cooling-model worlds of the oracle (other seed; every third with the model's max depth a depth surface), model vs library bit for bit
    rng = random.Random(seed * 9176 + 201)
    wdir = proto.workdir("C20_struct")
    lines = []
    for wi in range(budget(tier, 12, 120)):
        w, gl, name, top, bot, D, ridge, m = ocean_case(rng)
        dloc = m.pop("_dloc")
        path = os.path.join(wdir, "s_%d.wb" % wi)
        json.dump(w, open(path, "w"))
        lines.append("world w %s - aux %s.aux" % (path, path))
        for _ in range(12):
            pos = [rng.uniform(-1900e3, 1900e3), rng.uniform(-1900e3, 1900e3)]
            d = rng.uniform(0, 1.05 * dloc(pos))
            lines.append(q3("w", [pos[0], pos[1], 1000e3 - d], d, [(1, 0, 0)]))
        lines.append("free w")
    rs.append(corr_lines(lines))
    return summarize_corr(rs)


def replay(rp):
    v = rp["violation"]
    print(json.dumps({k: v[k] for k in v if k != "world_json"}, indent=1)[:3000])
    return False
