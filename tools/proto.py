"""Shared helpers: hex-float encoding, running the C++ harness and the Lean driver on a command file."""
import shutil, os, struct, subprocess, sys, math

HERE = os.path.dirname(os.path.abspath(__file__))
VERIF = os.path.dirname(HERE)
sys.path.insert(0, HERE)
import build_repo

LEAN_DIR = os.path.join(VERIF, "lean")


def fhex(x):
    return "%016x" % struct.unpack("<Q", struct.pack("<d", float(x)))[0]


def unhex(s):
    return struct.unpack("<d", struct.pack("<Q", int(s, 16)))[0]


def props_str(props):
    return ",".join("%d:%d:%d" % tuple(p) for p in props) if props else "-"


def ulps(a, b):
    """distance in units in the last place between two doubles (inf if signs differ on non-zero / nan)"""
    if a == b:
        return 0
    if math.isnan(a) or math.isnan(b):
        return 0 if (math.isnan(a) and math.isnan(b)) else float("inf")
    ia = struct.unpack("<q", struct.pack("<d", a))[0]
    ib = struct.unpack("<q", struct.pack("<d", b))[0]
    if ia < 0:
        ia = -(ia & 0x7fffffffffffffff)
    if ib < 0:
        ib = -(ib & 0x7fffffffffffffff)
    return abs(ia - ib)


_driver = None


def driver_path():
    """build (if needed) and return the compiled Lean driver"""
    global _driver
    if _driver:
        return _driver
    exe = os.path.join(LEAN_DIR, ".lake", "build", "bin", "gwbdriver")
    r = subprocess.run(["lake", "build", "gwbdriver"], cwd=LEAN_DIR, stdout=subprocess.PIPE, stderr=subprocess.STDOUT, text=True)
    if r.returncode != 0 or not os.path.exists(exe):
        raise RuntimeError("lake build gwbdriver failed:\n" + r.stdout[-3000:])
    _driver = exe
    return exe


def workdir(name):
    d = os.path.join(VERIF, ".cache", "work", name)
    os.makedirs(d, exist_ok=True)
    return d


def run_lines(cmd, lines, timeout=3600, env=None):
    p = subprocess.run(cmd, input="\n".join(lines) + "\n", stdout=subprocess.PIPE, stderr=subprocess.PIPE, text=True, timeout=timeout, env=env)
    return p.returncode, p.stdout.split("\n")[:-1] if p.stdout.endswith("\n") else p.stdout.split("\n"), p.stderr


_schema = {}


def schema(variant="plain"):
    """(declarations path, version) for the library built from the current tree"""
    if variant in _schema:
        return _schema[variant]
    h = build_repo.compile_harness(os.path.join(VERIF, "harness", "wbharness.cc"), variant)
    bdir = os.path.dirname(h)
    sdir = os.path.join(bdir, "schema") + "/"
    os.makedirs(sdir, exist_ok=True)
    ver = None
    for line in open(os.path.join(bdir, "include", "world_builder", "config.h")):
        if "const std::string MAJOR" in line:
            major = line.split('"')[1]
        if "const std::string MINOR" in line:
            minor = line.split('"')[1]
    ver = major + "." + minor
    final = os.path.join(sdir, "world_builder_declarations.schema.json")
    # several checks may run at once on one build directory: dump into a private directory and move the file into place atomically (a reader never sees a half-written file);
    # an existing dump that is newer than the harness binary is reused
    if not (os.path.exists(final) and os.path.getmtime(final) >= os.path.getmtime(h)):
        tdir = os.path.join(bdir, "schema.tmp%d" % os.getpid()) + "/"
        os.makedirs(tdir, exist_ok=True)
        mini = os.path.join(tdir, "min.wb")
        open(mini, "w").write('{"version":"%s","features":[]}\n' % ver)
        rc, out, err = run_lines([h], ["schema %s %s" % (tdir, mini)])
        if rc != 0 or out[:1] != ["ok"]:
            raise RuntimeError("schema dump failed: %r %r" % (out, err[-2000:]))
        os.replace(os.path.join(tdir, "world_builder_declarations.schema.json"), final)
        shutil.rmtree(tdir, ignore_errors=True)
    _schema[variant] = (os.path.join(sdir, "world_builder_declarations.schema.json"), ver)
    return _schema[variant]


def run_harness(lines, variant="plain", timeout=3600, env=None):
    h = build_repo.compile_harness(os.path.join(VERIF, "harness", "wbharness.cc"), variant)
    return run_lines([h], lines, timeout, env)


def run_driver(lines, variant="plain", timeout=3600):
    decl, ver = schema(variant)
    return run_lines([driver_path(), decl, ver], lines, timeout)


def parse_answer(line):
    """-> ('ok', [floats]) | ('err', class) | ('raw', line)"""
    w = line.split()
    if not w:
        return ("raw", line)
    if w[0] == "ok":
        if len(w) >= 2 and w[1].isdigit() and len(w) == 2 + int(w[1]) and all(len(t) == 16 for t in w[2:]):
            try:
                return ("ok", [unhex(t) for t in w[2:]])
            except ValueError:
                pass
        return ("raw", line)
    if w[0] == "err":
        return ("err", w[1] if len(w) > 1 else "")
    return ("raw", line)
