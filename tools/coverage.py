#!/usr/bin/env python3
"""Line coverage of /repo's library under the checks' own correspondence and oracle sessions.

    python3 tools/coverage.py [ids…]          (default: every property whose sessions use the in-process harness)

The library is built once more with `--coverage -O0` (variant `cov` of tools/build_repo.py), the quick-tier sessions of the chosen checks
are run against it (VERIF_COVERAGE=1 maps the plain variant to cov; the proof stage is skipped), and gcov is run over the object files.
Output: coverage/summary.json (per file: lines, covered, uncovered line numbers) and a table on stdout.  This is a development tool: it
shows which parts of the source no generated world reaches - i.e. where a change could not be noticed by correspondence or oracle - and it
is the measured answer to 'which parts of the code are tied to the model by the correspondence run'.  It is not part of any registered check.
"""
import json, os, re, subprocess, sys, glob, shutil
HERE = os.path.dirname(os.path.abspath(__file__))
VERIF = os.path.dirname(HERE)
sys.path.insert(0, HERE)
import build_repo

IDS = ["C01", "C02", "C03", "C04", "C05", "C06", "C07", "C08", "C09", "C10", "C11", "C12", "C13", "C15", "C19", "C20"]


def main():
    ids = sys.argv[1:] or IDS
    env = dict(os.environ, VERIF_COVERAGE="1")
    os.environ["VERIF_COVERAGE"] = "1"
    bdir = build_repo.build("plain")
    for f in glob.glob(os.path.join(bdir, "**", "*.gcda"), recursive=True):
        os.remove(f)
    for cid in ids:
        r = subprocess.run([sys.executable, os.path.join(HERE, "check.py"), cid, "--tier", "quick", "--skip-proof", "--no-evidence"], cwd=VERIF, env=env, stdout=subprocess.PIPE, stderr=subprocess.STDOUT, text=True)
        last = [l for l in r.stdout.split("\n") if l.startswith(cid + ":")]
        print(cid, r.returncode, last[-1][:160] if last else r.stdout[-300:], flush=True)
    out = os.path.join(VERIF, "coverage")
    shutil.rmtree(out, ignore_errors=True)
    os.makedirs(out)
    objdir = os.path.join(bdir, "CMakeFiles", "WorldBuilder.dir")
    gcdas = glob.glob(os.path.join(objdir, "**", "*.gcda"), recursive=True)
    summary = {}
    work = os.path.join(out, "gcov")
    os.makedirs(work)
    for g in gcdas:
        subprocess.run(["gcov", "-p", "-o", os.path.dirname(g), g], cwd=work, stdout=subprocess.DEVNULL, stderr=subprocess.DEVNULL)
    repo = os.path.realpath(build_repo.REPO)
    for gc in glob.glob(os.path.join(work, "*.gcov")):
        src = None
        lines = cov = 0
        unc = []
        for l in open(gc, errors="replace"):
            m = re.match(r"\s*([^:]+):\s*(\d+):(.*)", l)
            if not m:
                continue
            cnt, no, text = m.group(1).strip(), int(m.group(2)), m.group(3)
            if no == 0:
                if text.startswith("Source:"):
                    src = os.path.realpath(text[len("Source:"):])
                continue
            if cnt == "-":
                continue
            lines += 1
            if cnt.startswith("#") or cnt.startswith("="):
                # assertion failure branches and unreachable-default throws do not count as 'unreached behaviour'
                if not re.search(r"WBAssert|WB_ASSERT|default:|WBAssertThrow", text):
                    unc.append(no)
                else:
                    lines -= 1
            else:
                cov += 1
        if src and src.startswith(repo + os.sep) and ("/source/world_builder/" in src or "/include/world_builder/" in src):
            rel = os.path.relpath(src, repo)
            e = summary.setdefault(rel, {"lines": 0, "covered": 0, "uncovered": set()})
            # a header is seen from several objects: a line is covered if any object covers it
            e.setdefault("seen", {})
            for no in unc:
                e["seen"].setdefault(no, False)
            # re-read covered lines
            for l in open(gc, errors="replace"):
                m = re.match(r"\s*([^:]+):\s*(\d+):", l)
                if m and m.group(1).strip() not in ("-",) and not m.group(1).strip().startswith(("#", "=")) and int(m.group(2)) > 0:
                    e["seen"][int(m.group(2))] = True
    res = {}
    for rel, e in summary.items():
        seen = e["seen"]
        res[rel] = {"lines": len(seen), "covered": sum(1 for v in seen.values() if v), "uncovered": sorted(k for k, v in seen.items() if not v)}
    json.dump({"ids": ids, "files": res}, open(os.path.join(out, "summary.json"), "w"), indent=1, sort_keys=True)
    shutil.rmtree(work, ignore_errors=True)
    tot = sum(v["lines"] for v in res.values()); covd = sum(v["covered"] for v in res.values())
    print("library lines (assertion branches excluded): %d, reached by the sessions: %d (%.1f %%)" % (tot, covd, 100.0 * covd / max(1, tot)))
    for rel, v in sorted(res.items(), key=lambda kv: len(kv[1]["uncovered"]), reverse=True)[:40]:
        if v["uncovered"]:
            print("%5d/%5d uncovered  %s  %s" % (len(v["uncovered"]), v["lines"], rel, ranges(v["uncovered"])[:140]))


def ranges(ns):
    out, i = [], 0
    while i < len(ns):
        j = i
        while j + 1 < len(ns) and ns[j + 1] <= ns[j] + 1:
            j += 1
        out.append(str(ns[i]) if i == j else "%d-%d" % (ns[i], ns[j]))
        i = j + 1
    return ",".join(out)


if __name__ == "__main__":
    main()
