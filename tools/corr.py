"""Correspondence between the Lean model (compiled driver, R = Float) and the library built from /repo's
current working tree: same worlds, same query histories, outputs diffed.

Comparison rule (DESIGN §4): lengths, error classes and integer-valued slots exact; floating values must agree
within `ULP_TOL` ulps or relative `REL_TOL` (libm may differ in the last ulp between the two binaries).
The share of bit-identical values is reported.
"""
import json, os, random, sys, math, collections

HERE = os.path.dirname(os.path.abspath(__file__))
sys.path.insert(0, HERE)
sys.path.insert(0, os.path.join(HERE, "gen"))
import proto
from proto import fhex, props_str, parse_answer, ulps
from worlds import WorldGen

ULP_TOL = 16
REL_TOL = 1e-9


def close(a, b, rel=REL_TOL):
    if a == b or (math.isnan(a) and math.isnan(b)):
        return True
    if math.isnan(a) or math.isnan(b) or math.isinf(a) or math.isinf(b):
        return False
    if ulps(a, b) <= ULP_TOL:
        return True
    return abs(a - b) <= rel * max(abs(a), abs(b)) + 1e-300


class Stats:
    def __init__(self):
        self.c = collections.Counter()
        self.values = 0
        self.bit_identical = 0
        self.max_ulp = 0

    def add(self, key, n=1):
        self.c[key] += n


def compare_answers(a, b, stats, rel=REL_TOL):
    """a: harness line, b: driver line -> None if they agree, else a description"""
    pa, pb = parse_answer(a), parse_answer(b)
    if pa[0] != pb[0]:
        return "kind %s vs %s" % (pa[0], pb[0])
    if pa[0] == "err":
        stats.add("err:" + pa[1])
        return None if pa[1] == pb[1] else "error class %s vs %s" % (pa[1], pb[1])
    if pa[0] == "raw":
        return None if a == b else "raw differs"
    va, vb = pa[1], pb[1]
    if len(va) != len(vb):
        return "length %d vs %d" % (len(va), len(vb))
    for i, (x, y) in enumerate(zip(va, vb)):
        stats.values += 1
        if x == y or (math.isnan(x) and math.isnan(y)):
            stats.bit_identical += 1
        else:
            u = ulps(x, y)
            if u != float("inf"):
                stats.max_ulp = max(stats.max_ulp, u)
            if not close(x, y, rel):
                return "slot %d: %r vs %r" % (i, x, y)
    return None


def gen_session(rng, wdir, name, nworlds, nqueries, gen_opts, twod=True, singles=True, nocull=False):
    """write world files, return (command lines, per-line info, metas).  Worlds stay alive together and
    queries are interleaved between them (history independence is part of what is compared)."""
    lines, info, metas = [], [], []
    live = []
    decl = json.load(open(proto.schema()[0]))
    for wi in range(nworlds):
        g = WorldGen(random.Random(rng.getrandbits(64)), schema=decl, **gen_opts)
        w = g.world()
        path = os.path.join(wdir, "%s_w%d.wb" % (name, wi))
        json.dump(w, open(path, "w"))
        wid = "w%d" % wi
        seed = rng.choice(["-", "-", "1", "5", "4294967297"]) if gen_opts.get("with_random") else "-"
        lines.append("world %s %s %s aux %s.aux%s" % (wid, path, seed, path, " nocull" if nocull else ""))
        info.append({"kind": "world", "world": path})
        metas.append(g.meta)
        qs = [("q3", p, d) for (p, d) in g.queries(w, nqueries)]
        if twod and "cross section" in w:
            qs += [("q2", p, d) for (p, d) in g.queries2d(w, max(2, nqueries // 3))]
        elif twod and rng.random() < 0.3:
            qs += [("q2", [1000.0, 1000e3], 1000.0)]        # must be refused
        rng.shuffle(qs)
        live.append((wid, path, g, qs))
        if len(live) >= 3 or wi == nworlds - 1:
            # drain the live worlds, interleaved
            pending = [(wid_, path_, g_, list(qs_)) for (wid_, path_, g_, qs_) in live]
            while pending:
                k = rng.randrange(len(pending))
                wid_, path_, g_, qs_ = pending[k]
                if not qs_:
                    pending.pop(k)
                    lines.append("free %s" % wid_)
                    info.append({"kind": "free"})
                    continue
                kind, p, d = qs_.pop()
                props = g_.props()
                u = rng.random()
                if singles and u < 0.08:
                    cmd = ("t3" if kind == "q3" else "t2")
                    lines.append("%s %s %s %s" % (cmd, wid_, " ".join(fhex(v) for v in p), fhex(d)))
                elif singles and u < 0.16:
                    cmd = ("c3" if kind == "q3" else "c2")
                    lines.append("%s %s %s %s %d" % (cmd, wid_, " ".join(fhex(v) for v in p), fhex(d), rng.randint(0, 4)))
                elif singles and u < 0.2:
                    cmd = ("g3" if kind == "q3" else "g2")
                    lines.append("%s %s %s %s %d %d" % (cmd, wid_, " ".join(fhex(v) for v in p), fhex(d), rng.randint(0, 2), rng.choice([0, 1, 2, 3])))
                else:
                    if rng.random() < 0.02:
                        props = props + [(rng.choice([0, 6, 9]), 0, 0)]      # unimplemented property code
                    lines.append("%s %s %s %s %s" % (kind, wid_, " ".join(fhex(v) for v in p), fhex(d), props_str(props)))
                info.append({"kind": kind, "world": path_, "point": p, "depth": d, "cmd": lines[-1]})
            live = []
    return lines, info, metas


def run_corr(seed, name, nworlds, nqueries, gen_opts, variant="plain", rel=REL_TOL, **kw):
    """-> dict(cases, mismatches[list], stats, metas, samples)"""
    rng = random.Random(seed)
    wdir = proto.workdir(name)
    lines, info, metas = gen_session(rng, wdir, name, nworlds, nqueries, gen_opts, **kw)
    open(os.path.join(wdir, name + ".cmds"), "w").write("\n".join(lines) + "\n")
    rc1, out1, err1 = proto.run_harness(lines, variant)
    rc2, out2, err2 = proto.run_driver(lines, variant)
    st = Stats()
    mism = []
    if rc1 != 0 or len(out1) != len(lines):
        mism.append({"what": "harness died", "rc": rc1, "answered": len(out1), "of": len(lines), "stderr": err1[-2000:],
                     "next_cmd": lines[len(out1)] if len(out1) < len(lines) else None})
    if rc2 != 0 or len(out2) != len(lines):
        mism.append({"what": "driver died", "rc": rc2, "answered": len(out2), "of": len(lines), "stderr": err2[-2000:]})
    n = min(len(out1), len(out2), len(lines))
    unsupported_worlds = set()
    cur_world_ok = {}
    cases = 0
    for i in range(n):
        w = lines[i].split()
        if w[0] == "world":
            if out2[i].startswith("err unsupported"):
                unsupported_worlds.add(w[1])
                st.add("world:unsupported-by-model")
                continue
            else:
                unsupported_worlds.discard(w[1])
        elif len(w) > 1 and w[1] in unsupported_worlds:
            continue
        if w[0] in ("free",):
            continue
        cases += 1
        st.add("cmd:" + w[0])
        d = compare_answers(out1[i], out2[i], st, rel)
        if d is not None:
            mism.append({"what": d, "line": i, "cmd": lines[i], "impl": out1[i][:400], "model": out2[i][:400], "info": info[i]})
    agg = collections.Counter()
    for m in metas:
        for f in m["features"]:
            agg["feature:" + f] += 1
        for mm in m["models"]:
            agg["model:" + mm] += 1
        for o in m["ops"]:
            agg["op:" + o] += 1
        agg["surfaces"] += m["surfaces"]
        agg["omitted-optional-keys"] += m["omitted"]
        agg["spherical" if m["spherical"] else "cartesian"] += 1
    return {"cases": cases, "mismatches": mism, "stats": st, "dist": dict(agg), "lines": lines, "out_impl": out1, "out_model": out2,
            "info": info, "cmdfile": os.path.join(wdir, name + ".cmds")}


if __name__ == "__main__":
    seed = int(os.environ.get("VERIF_SEED", "1"))
    r = run_corr(seed, "corrtest", int(sys.argv[1]) if len(sys.argv) > 1 else 20, 30, {"with_random": False})
    st = r["stats"]
    print("cases", r["cases"], "values", st.values, "bit-identical", st.bit_identical, "max ulp", st.max_ulp)
    print(dict(st.c))
    print(r["dist"])
    for m in r["mismatches"][:10]:
        print(json.dumps(m)[:1500])
    print("mismatches:", len(r["mismatches"]))
