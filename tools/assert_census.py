#!/usr/bin/env python3
"""Development tool: which always-on assertions (WBAssertThrow) of the library are actually THROWN by the documents of the C12 check?  The harness reports every exception
with the file and line of the assertion, so the set of thrown sites can be read off its answers; sites that guard user input and are never thrown are gaps of the
length catalogue (a change that removes such a guard could not be noticed).  usage: python3 tools/assert_census.py"""
import sys,os,re,json,subprocess
sys.path.insert(0,'/verif/tools'); sys.path.insert(0,'/verif/tools/props'); sys.path.insert(0,'/verif/tools/gen')
import proto, prop_C12
seen={}
for seed in (1,2,3):
    wdir=proto.workdir("C12_sites")
    docs=prop_C12.build_documents(seed,'thorough' if seed==1 else 'quick',wdir)
    groups=[["world w %s 1"%d["path"],"free w"] for d in docs]
    res=prop_C12.run_groups(groups,"plain")
    for d,r in zip(docs,res):
        out=r[0] or []
        for o in out:
            m=re.search(r"failed in (\S+) at line (\d+)",o)
            if m:
                k=(os.path.relpath(m.group(1),'/repo'),int(m.group(2)))
                seen.setdefault(k,(d['cat'],d['kind']))
print(len(seen),'distinct assertion sites thrown by the C12 documents')
# all WBAssertThrow sites in the library that guard user input (features/, objects/, world.cc, coordinate_systems, gravity)
allsites=[]
for root,dirs,files in os.walk('/repo/source/world_builder'):
    for f in files:
        if f.endswith('.cc'):
            p=os.path.join(root,f); rel=os.path.relpath(p,'/repo')
            for i,l in enumerate(open(p,errors='replace').read().split('\n')):
                if re.search(r'\bWBAssertThrow(Exc)?\s*\(',l) and 'WBAssertThrow(false' not in l.replace(' ',''):
                    allsites.append((rel,i+1,l.strip()[:140]))
# a multi-line macro reports the line of ... __LINE__ at the macro invocation's last line? compare with tolerance of a few lines
def hit(rel,no):
    return any(k[0]==rel and 0<=k[1]-no<=6 for k in seen)
miss=[s for s in allsites if not hit(s[0],s[1]) and ('/features/' in s[0] or s[0].endswith('world.cc') or '/objects/' in s[0] or 'coordinate_systems' in s[0] or 'gravity' in s[0] or s[0].endswith('utilities.cc'))]
print(len(allsites),'sites;',len(miss),'user-input guards never thrown:')
for s in miss: print('%s:%d  %s'%s)
