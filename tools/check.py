#!/usr/bin/env python3
"""Decide one property:  python3 tools/check.py <id> [--tier quick|thorough] [--replay <file>] [--update-expected]

Stages (DESIGN §5): proof (lake build + forbidden-token scan + axiom audit + statement pinning),
build (library + harness from /repo's working tree, Lean driver), correspondence (model vs. implementation),
property oracle on the implementation, verdict, evidence.

exit 0: property held on everything explored (KNOWN-FINDING lines may be printed);
exit 1: a line `VIOLATION property=<id> replay=<path>[ no-failing-input-found]` was printed.
"""
import argparse, hashlib, importlib, json, os, re, subprocess, sys, time, traceback

HERE = os.path.dirname(os.path.abspath(__file__))
VERIF = os.path.dirname(HERE)
sys.path.insert(0, HERE)
sys.path.insert(0, os.path.join(HERE, "gen"))
sys.path.insert(0, os.path.join(HERE, "props"))
import proto, build_repo

LEAN = os.path.join(VERIF, "lean")
ALLOWED_AXIOMS = {"propext", "Classical.choice", "Quot.sound"}
FORBIDDEN = re.compile(r"\bsorry\b|\badmit\b|^\s*axiom\s|native_decide|bv_decide|implemented_by|\bunsafe\s|maxHeartbeats\s+0")

TRUSTED_BASE_COMMON = [
    "Lean 4.33.0 kernel (thorough tier: re-checked with leanchecker); Mathlib v4.33.0 as compiled in /opt/veriftools/mathlib4",
    "axioms: at most propext, Classical.choice, Quot.sound (audited with #print axioms on every run); no native_decide / bv_decide / custom axioms / sorry",
    "hand-written Lean model of the C++ (lean/GwbVerif/Model); tied to /repo's current working tree only by the correspondence run of this check (generated worlds and queries, sizes in this file)",
    "Lean compiler/runtime for the driver at R = Float (IEEE double; libm of the platform); C++ harness harness/*.cc; generators tools/gen; comparison rule tools/corr.py",
]


def strip_comments(src):
    src = re.sub(r"/-.*?-/", lambda m: "\n" * m.group(0).count("\n"), src, flags=re.S)
    return re.sub(r"--.*", "", src)


def lean_files():
    out = []
    for root, _, files in os.walk(os.path.join(LEAN, "GwbVerif")):
        out += [os.path.join(root, f) for f in files if f.endswith(".lean")]
    for root, _, files in os.walk(os.path.join(LEAN, "Driver")):
        out += [os.path.join(root, f) for f in files if f.endswith(".lean")]
    return sorted(out)


def proof_stage(pid, tier, update_expected=False):
    """-> dict(ok, obligations, discharged, problems[list of str], theorems[list], checker_cmd)"""
    res = {"ok": True, "problems": [], "theorems": [], "obligations": 0, "discharged": 0}
    t0 = time.time()
    # every property module of this id: Properties/<id>.lean and companions Properties/<id><Suffix>.lean (e.g. C04Plume, C12Schema)
    targets = sorted("GwbVerif.Properties." + f[:-5] for f in os.listdir(os.path.join(LEAN, "GwbVerif", "Properties")) if f.endswith(".lean") and re.match(r"^%s([A-Z][A-Za-z]*)?\.lean$" % pid, f))
    target = " ".join(targets)
    res["checker_cmd"] = "cd lean && lake build %s && lake env lean Audit/%s.lean   (python3 tools/check.py %s)" % (target, pid, pid)
    r = subprocess.run(["lake", "build"] + targets, cwd=LEAN, stdout=subprocess.PIPE, stderr=subprocess.STDOUT, text=True)
    build_ok = r.returncode == 0
    if not build_ok:
        res["ok"] = False
        errs = [l for l in r.stdout.split("\n") if "error" in l][:10]
        res["problems"].append("lake build %s failed: %s" % (target, " | ".join(errs)))
    # forbidden tokens anywhere in the development (outside comments)
    for f in lean_files():
        if "/scratch/" in f:
            continue
        src = strip_comments(open(f).read())
        # `@[extern]` opaque bindings to libm live in the driver only and are named in the trusted base
        for n, line in enumerate(src.split("\n"), 1):
            if FORBIDDEN.search(line):
                res["ok"] = False
                res["problems"].append("forbidden token in %s:%d: %s" % (os.path.relpath(f, VERIF), n, line.strip()[:80]))
    audit = os.path.join(LEAN, "Audit", pid + ".lean")
    names = re.findall(r"#print axioms\s+(\S+)", open(audit).read())
    res["obligations"] = len(names)
    thm = {}
    if build_ok:
        r = subprocess.run(["lake", "env", "lean", audit], cwd=LEAN, stdout=subprocess.PIPE, stderr=subprocess.STDOUT, text=True)
        out = r.stdout
        if r.returncode != 0:
            res["ok"] = False
            res["problems"].append("audit file failed: " + out[:500])
        for m in re.finditer(r"'(?:Gwb\.)?([^']+)' depends on axioms: \[([^\]]*)\]", out):
            axs = set(a.strip() for a in m.group(2).split(",") if a.strip())
            thm[m.group(1)] = {"axioms": sorted(axs)}
        for m in re.finditer(r"'(?:Gwb\.)?([^']+)' does not depend on any axioms", out):
            thm[m.group(1)] = {"axioms": []}
        # statements: the text `#check @name` prints, up to the next top-level item
        chunks = re.split(r"\n(?=@?[A-Za-z_][\w.]* : )", "\n" + out)
        for ch in chunks:
            m = re.match(r"\s*@?((?:Gwb\.)?[\w.]+) : (.*)", ch, flags=re.S)
            if m:
                nm = m.group(1).replace("Gwb.", "")
                if nm in thm or nm in names:
                    stmt = re.sub(r"\s+", " ", m.group(2)).strip()
                    thm.setdefault(nm, {})["statement_sha"] = hashlib.sha256(stmt.encode()).hexdigest()[:16]
                    thm[nm]["statement"] = stmt[:400]
    exp_path = os.path.join(LEAN, "Audit", pid + ".expected.json")
    if update_expected:
        json.dump({n: thm.get(n, {}).get("statement_sha") for n in names}, open(exp_path, "w"), indent=1, sort_keys=True)
    expected = json.load(open(exp_path)) if os.path.exists(exp_path) else {}
    for n in names:
        info = thm.get(n)
        entry = {"name": n, "ok": False}
        if info is None or "axioms" not in info:
            res["problems"].append("theorem %s did not check" % n)
        elif not set(info["axioms"]) <= ALLOWED_AXIOMS:
            res["problems"].append("theorem %s depends on axioms %s" % (n, info["axioms"]))
        elif expected.get(n) is None:
            res["problems"].append("theorem %s has no pinned statement (run --update-expected)" % n)
        elif expected.get(n) != info.get("statement_sha"):
            res["problems"].append("statement of %s changed (pinned %s, now %s)" % (n, expected.get(n), info.get("statement_sha")))
        else:
            entry["ok"] = True
            res["discharged"] += 1
        if info:
            entry.update({k: info[k] for k in ("axioms", "statement") if k in info})
        res["theorems"].append(entry)
    for n in expected:
        if n not in names:
            res["problems"].append("pinned theorem %s is no longer audited" % n)
    if res["problems"]:
        res["ok"] = False
    if tier == "thorough" and build_ok:
        res["leanchecker"] = "ok"
        for tg in targets:          # one module per call
            r = subprocess.run(["lake", "env", "leanchecker", tg], cwd=LEAN, stdout=subprocess.PIPE, stderr=subprocess.STDOUT, text=True)
            if r.returncode != 0:
                res["leanchecker"] = "failed: " + r.stdout[-300:]
                res["ok"] = False
                res["problems"].append("leanchecker rejected %s" % tg)
    res["wall_s"] = round(time.time() - t0, 1)
    return res


def load_known():
    known, fixed = [], []
    p = os.path.join(VERIF, "KNOWN_FINDINGS")
    if os.path.exists(p):
        for line in open(p):
            line = line.strip()
            if line.startswith("known:"):
                m = re.match(r"known:\s+property=(\S+)\s+matcher=(.*?)\s+::\s+(.*)", line)
                if m:
                    known.append({"property": m.group(1), "matcher": m.group(2), "what": m.group(3)})
            elif line.startswith("fixed:"):
                fixed.append(line)
    return known, fixed


def match_known(pid, violation, known):
    for k in known:
        if k["property"] != pid:
            continue
        try:
            if eval(k["matcher"], {"__builtins__": {"abs": abs, "len": len, "any": any, "all": all, "min": min, "max": max, "str": str}}, {"v": violation}):
                return k
        except Exception:
            continue
    return None


def main():
    ap = argparse.ArgumentParser()
    ap.add_argument("pid")
    ap.add_argument("--tier", default=os.environ.get("VERIF_TIER", "quick"))
    ap.add_argument("--replay")
    ap.add_argument("--update-expected", action="store_true")
    ap.add_argument("--skip-proof", action="store_true")
    ap.add_argument("--no-evidence", action="store_true", help="development runs (tools/coverage.py): leave evidence/<id>.json alone")
    a = ap.parse_args()
    pid, tier = a.pid, a.tier
    seed = int(os.environ.get("VERIF_SEED", "1"))
    # two runs of one property (quick and thorough started together) share scratch directories: the second waits for the first
    import fcntl
    os.makedirs(os.path.join(VERIF, ".cache"), exist_ok=True)
    _run_lock = open(os.path.join(VERIF, ".cache", "run-%s.lock" % pid), "w")
    fcntl.flock(_run_lock, fcntl.LOCK_EX)
    t0 = time.time()
    mod = importlib.import_module("prop_" + pid)
    os.makedirs(os.path.join(VERIF, "evidence"), exist_ok=True)
    os.makedirs(os.path.join(VERIF, "replays"), exist_ok=True)

    if a.replay:
        rp = json.load(open(a.replay))
        ok = mod.replay(rp)
        print("replay:", "property holds on the replayed case" if ok else "property still violated on the replayed case")
        return 0 if ok else 1

    known, fixed = load_known()
    if hasattr(mod, "pregen"):
        mod.pregen()          # regenerate translated model files from /repo's current sources before the proofs are checked
    proof = {"ok": True, "obligations": 0, "discharged": 0, "problems": [], "theorems": [], "checker_cmd": "(skipped)"} if a.skip_proof \
        else proof_stage(pid, tier, a.update_expected)
    violations = []          # genuine failing inputs of the property (dicts with 'what', 'replay' …)
    broken = list(proof["problems"])   # proof obligations / correspondences that no longer check
    cov = {}
    try:
        build_repo.build("plain")
        proto.driver_path()
        cres = mod.correspondence(seed, tier)
        cov["correspondence"] = cres["summary"]
        for m in cres["mismatches"]:
            broken.append("correspondence[%s]: %s" % (m.get("scope", pid), m.get("what")))
        ores = mod.oracle(seed, tier)
        cov["oracle"] = ores["summary"]
        violations += ores["violations"]
        # a correspondence mismatch may itself be a failing input of the property if the module says so
        violations += [m for m in cres["mismatches"] if m.get("is_property_violation")]
    except Exception as e:
        broken.append("check machinery failed: %s" % e)
        traceback.print_exc()
        cres = {"mismatches": [], "summary": {}, "samples": []}
        ores = {"violations": [], "summary": {}, "samples": []}

    exit_code = 0
    n_new = 0
    printed_known = set()
    for v in violations:
        k = match_known(pid, v, known)
        if k:
            if k["what"] not in printed_known:
                printed_known.add(k["what"])
                print("KNOWN-FINDING: property=%s %s" % (pid, k["what"]))
            continue
        n_new += 1
        h = hashlib.sha256(json.dumps(v, sort_keys=True, default=str).encode()).hexdigest()[:12]
        path = os.path.join(VERIF, "replays", "%s-%s.json" % (pid, h))
        json.dump({"property": pid, "seed": seed, "tier": tier, "violation": v,
                   "rerun": "python3 tools/check.py %s --replay %s" % (pid, path)}, open(path, "w"), indent=1, default=str)
        if n_new <= 5:
            print("VIOLATION property=%s replay=%s" % (pid, path))
        exit_code = 1
    if broken and n_new == 0:
        h = hashlib.sha256(json.dumps(broken, sort_keys=True).encode()).hexdigest()[:12]
        path = os.path.join(VERIF, "replays", "%s-%s.json" % (pid, h))
        first = (cres["mismatches"] or [None])[0]
        json.dump({"property": pid, "seed": seed, "tier": tier, "no_longer_checks": broken, "first_disagreeing_sample": first,
                   "note": "a proof obligation or the model/implementation correspondence broke; the search of model and implementation "
                           "found no input on which the property itself fails"}, open(path, "w"), indent=1, default=str)
        print("VIOLATION property=%s replay=%s no-failing-input-found" % (pid, path))
        exit_code = 1

    samples = (ores.get("samples") or [])[:3] + (cres.get("samples") or [])[:2] + [{"theorem": t["name"], "statement": t.get("statement", "")[:300]} for t in proof["theorems"][:3]]
    coverage = {
        "obligations": max(1, proof["obligations"]),
        "discharged": proof["discharged"],
        "checker_cmd": proof["checker_cmd"],
        "trusted_base": TRUSTED_BASE_COMMON + list(getattr(mod, "TRUSTED_BASE", [])),
        "theorems": proof["theorems"],
        "proof_problems": proof["problems"],
        "evaluations": int(cov.get("correspondence", {}).get("cases", 0)) + int(cov.get("oracle", {}).get("cases", 0)),
        "distinct_nontrivial": int(cov.get("correspondence", {}).get("nontrivial", 0)) + int(cov.get("oracle", {}).get("nontrivial", 0)),
        "rule": getattr(mod, "RULE", ""),
        "samples": samples if samples else [{"note": "no samples"}],
        "correspondence": cov.get("correspondence", {}),
        "oracle": cov.get("oracle", {}),
        "tree_hash": build_repo.tree_hash(),
        "exhaustive": bool(cov.get("correspondence", {}).get("exhaustive", False)),
    }
    if "leanchecker" in proof:
        coverage["leanchecker"] = proof["leanchecker"]
    ev = {"property_id": pid, "tier": tier if tier in ("quick", "thorough") else "quick", "seed": seed,
          "level": getattr(mod, "LEVEL", "proof"), "coverage": coverage,
          "assumptions": list(getattr(mod, "ASSUMPTIONS", [])), "wall_s": round(time.time() - t0, 1), "violations": n_new + (1 if (broken and n_new == 0) else 0)}
    if not a.no_evidence:
        json.dump(ev, open(os.path.join(VERIF, "evidence", pid + ".json"), "w"), indent=1, default=str)
    print("%s: proof %d/%d, correspondence %s, oracle %s, %s (%.0fs)" % (
        pid, proof["discharged"], proof["obligations"], json.dumps({k: v for k, v in cov.get("correspondence", {}).items() if k in ("cases", "mismatches", "bit_identical_share")}),
        json.dumps({k: v for k, v in cov.get("oracle", {}).items() if k in ("cases", "violations")}), "OK" if exit_code == 0 else "FAILED", time.time() - t0))
    return exit_code


if __name__ == "__main__":
    sys.exit(main())
