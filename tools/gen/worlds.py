"""Type-directed generator of world-builder files, query points and property lists.

All randomness comes from the `random.Random` handed in (seeded from VERIF_SEED by the caller).
Numbers are integers or short dyadic decimals so that rapidjson and Lean's JSON reader produce the
same double.  The generator returns, next to each world, a `meta` record (feature kinds, model kinds,
operations, which optional keys were omitted, …) that ends up in the evidence as the input distribution.
"""
import math

OPS = ["replace", "add", "subtract", "replace defined only"]
OPS_T = ["replace", "add", "subtract"]


def dy(rng, lo, hi, step):
    """a multiple of `step` (a power of two or an integer) in [lo, hi]"""
    n0 = math.ceil(lo / step)
    n1 = math.floor(hi / step)
    v = rng.randint(n0, n1) * step
    return int(v) if float(v).is_integer() else v


class WorldGen:
    def __init__(self, rng, spherical=None, allow=None, max_features=4, with_surfaces=True, with_random=False,
                 with_cross=None, with_lines=False, schema=None, focus=(), slab_models=0.0, slab_ub=False):
        self.rng = rng
        self.schema = schema
        self._alts = []
        if schema is not None:
            self._collect_alts(schema)
        self.spherical = rng.random() < 0.4 if spherical is None else spherical
        self.allow = allow or (["continental plate", "oceanic plate", "mantle layer", "plume"] + (["subducting plate", "fault"] * 2 if with_lines else []))
        self.max_features = max_features
        self.with_surfaces = with_surfaces
        self.with_random = with_random
        self.with_cross = rng.random() < 0.5 if with_cross is None else with_cross
        self.with_lines = with_lines
        # probability that a slab temperature model is one of the slab-only models (`plate model`, `mass conserving`);
        # 0 keeps the generator's output for the older runs unchanged.  `slab_ub`: also produce the combinations on which the
        # library reads `ridge_migration_times` past its end (per-point subducting velocities with fewer spreading-velocity
        # items than ridges) and unknown `reference model name`s (enum left uninitialised).
        self.slab_models = slab_models
        self.slab_ub = slab_ub
        self._line_geom = None
        # names of model families to be chosen more often than by default ("tian": water content, "line random": random grains of slabs / faults)
        self.focus = set(focus)
        self.meta = {"spherical": self.spherical, "features": [], "models": [], "ops": [], "surfaces": 0, "omitted": 0}
        self.radius = 6371000

    def required_keys(self, d):
        """required keys of the plugin object `d` (looked up in the library's own declarations by its `model` and the keys it can have)"""
        if self.schema is None or "model" not in d:
            return ()
        best = ()
        for alts in self._alts:
            for a in alts:
                pr = a.get("properties", {})
                if pr.get("model", {}).get("enum", [None])[0] == d["model"] and all(k in pr for k in d):
                    best = tuple(a.get("required", ()))
                    return best
        return best

    def _collect_alts(self, node):
        if isinstance(node, dict):
            if "oneOf" in node and isinstance(node["oneOf"], list) and node["oneOf"] and isinstance(node["oneOf"][0], dict) and "properties" in node["oneOf"][0]:
                self._alts.append(node["oneOf"])
            for v in node.values():
                self._collect_alts(v)
        elif isinstance(node, list):
            for v in node:
                self._collect_alts(v)

    # ---- coordinates -----------------------------------------------------------------
    def center(self):
        r = self.rng
        if self.spherical:
            lon = dy(r, -170, 170, 0.5) if r.random() < 0.7 else r.choice([-179, 179, 180, -180, 0, 175.5])
            lat = dy(r, -60, 60, 0.5)
            return [lon, lat]
        return [dy(r, -800e3, 800e3, 1e3) if r.random() < 0.8 else 0, dy(r, -800e3, 800e3, 1e3) if r.random() < 0.8 else 0]

    def scale(self):
        return self.rng.choice([2, 5, 10, 20]) if self.spherical else self.rng.choice([50e3, 100e3, 200e3, 400e3])

    def step(self):
        return 0.25 if self.spherical else 1e3

    def polygon(self, c=None, rad=None):
        r = self.rng
        c = c or self.center()
        rad = rad or self.scale()
        n = r.choice([3, 4, 4, 5, 6, 8, 12])
        if r.random() < 0.25:
            # axis-parallel rectangle (edges exactly representable)
            w, h = rad * r.choice([0.5, 1, 2]), rad * r.choice([0.5, 1])
            pts = [[c[0] - w, c[1] - h], [c[0] + w, c[1] - h], [c[0] + w, c[1] + h], [c[0] - w, c[1] + h]]
        else:
            angs = sorted(r.uniform(0, 2 * math.pi) for _ in range(n))
            pts = []
            for a in angs:
                rr = rad * r.uniform(0.35, 1.0)
                x = c[0] + rr * math.cos(a)
                y = c[1] + rr * math.sin(a)
                st = self.step()
                pts.append([round(x / st) * st, round(y / st) * st])
        if r.random() < 0.5:
            pts.reverse()
        pts = [[int(v) if float(v).is_integer() else v for v in p] for p in pts]
        if self.spherical:
            pts = [[max(-359.5, min(359.5, p[0])), max(-89, min(89, p[1]))] for p in pts]
        # drop consecutive duplicates
        out = []
        for p in pts:
            if not out or out[-1] != p:
                out.append(p)
        if len(out) >= 2 and out[0] == out[-1]:
            out.pop()
        if len(out) < 3:
            return self.polygon()
        return out, c, rad

    # ---- depth entries ---------------------------------------------------------------
    def depth_value(self, lo=0, hi=400e3):
        return dy(self.rng, lo, hi, 5e3)

    def depth_entry(self, corners, c, rad, lo, hi, force_plain=False):
        """a `OneOf(double, array of value-at-points)` entry"""
        r = self.rng
        if force_plain or not self.with_surfaces or r.random() < 0.6:
            return self.depth_value(lo, hi)
        kind = r.random()
        if kind < 0.15:
            return [[self.depth_value(lo, hi)]]
        self.meta["surfaces"] += 1
        items = []
        if r.random() < 0.5:
            items.append([self.depth_value(lo, hi)])            # value without points: sets all corners
        npts = r.choice([1, 1, 2, 3])
        for _ in range(npts):
            pts = []
            for _ in range(r.choice([1, 1, 2])):
                u = r.random()
                if u < 0.25:
                    pts.append(list(r.choice(corners)))          # coincides with a corner
                else:
                    st = self.step()
                    f = r.uniform(0, 0.3)
                    a = r.uniform(0, 2 * math.pi)
                    p = [round((c[0] + f * rad * math.cos(a)) / st) * st, round((c[1] + f * rad * math.sin(a)) / st) * st]
                    pts.append([int(v) if float(v).is_integer() else v for v in p])
            items.append([self.depth_value(lo, hi), pts])
        if r.random() < 0.4:
            r.shuffle(items)            # a value without points may come after entries with points (it sets the polygon corners only)
        return items

    def maybe(self, d, key, value, p=0.7):
        if key in self.required_keys(d) or self.rng.random() < p:
            d[key] = value
        else:
            self.meta["omitted"] += 1

    def range_keys(self, m, corners, c, rad, lo=0, hi=400e3, plain=False, require_max=False):
        r = self.rng
        a = self.depth_value(lo, (lo + hi) / 2)
        self.maybe(m, "min depth", self.depth_entry(corners, c, rad, lo, max(lo, (lo + hi) / 2), plain), 0.5)
        if require_max:
            e = self.depth_entry(corners, c, rad, (lo + hi) / 2, hi, plain)
            # a model that needs a bounded max depth (the plate models refuse an unbounded plate thickness): every corner must get a value, so a surface without an entry
            # that sets all corners gets one, mostly first (the refusal itself is exercised by the C12 / C13 catalogues)
            if isinstance(e, list) and len(e) >= 1 and not any(isinstance(it, list) and len(it) == 1 for it in e):
                e.insert(0 if r.random() < 0.7 else r.randint(0, len(e)), [self.depth_value((lo + hi) / 2, hi)])
            m["max depth"] = e
        else:
            self.maybe(m, "max depth", self.depth_entry(corners, c, rad, (lo + hi) / 2, hi, plain), 0.7)

    # ---- models ----------------------------------------------------------------------
    def temperature(self, r=None):
        r = self.rng
        return r.choice([-1, 273, 300, 500, 1000, 1600, dy(r, 100, 2000, 0.5)])

    def op(self, m, ops=OPS_T):
        r = self.rng
        if r.random() < 0.6:
            o = r.choice(ops)
            m["operation"] = o
            self.meta["ops"].append(o)
        else:
            self.meta["ops"].append("default")

    def ridge(self, c, rad):
        r = self.rng
        nr = r.choice([1, 1, 2])
        ridges = []
        st = self.step()
        x0 = c[0] - rad * r.uniform(0.2, 1.5)
        for i in range(nr):
            npts = r.choice([2, 2, 3])
            pts = []
            for j in range(npts):
                x = x0 + i * rad * 0.3 + r.uniform(-0.1, 0.1) * rad
                y = c[1] - rad + (i * npts + j) * (2 * rad / (nr * npts))
                pts.append([round(x / st) * st, round(y / st) * st])
            ridges.append([[int(v) if float(v).is_integer() else v for v in p] for p in pts])
        return ridges

    def temp_models(self, kind, corners, c, rad):
        r = self.rng
        out = []
        for _ in range(r.choice([0, 1, 1, 2, 3])):
            names = ["uniform", "linear", "adiabatic"]
            if kind == "continental plate":
                names += ["chapman"]
            if kind == "oceanic plate":
                names += ["half space model", "plate model", "plate model constant age"]
            if kind == "plume":
                names = ["uniform", "gaussian"]
            name = r.choice(names)
            m = {"model": name}
            self.meta["models"].append(kind + "/T/" + name)
            if kind == "plume":
                if name == "uniform":
                    m["temperature"] = self.temperature()
                    self.maybe(m, "min depth", self.depth_value(0, 200e3), 0.4)
                    self.maybe(m, "max depth", self.depth_value(200e3, 600e3), 0.4)
                else:
                    n = r.choice([1, 2, 3])
                    ds = sorted(set(self.depth_value(0, 600e3) for _ in range(n)))
                    m["depths"] = ds
                    m["centerline temperatures"] = [self.temperature() for _ in ds]
                    m["gaussian sigmas"] = [r.choice([0.1, 0.25, 0.5, 1, 2]) for _ in ds]
                self.op(m)
                out.append(m)
                continue
            need_max = name in ("linear", "half space model", "plate model", "plate model constant age")
            self.range_keys(m, corners, c, rad, 0, 400e3, plain=False, require_max=need_max)
            self.op(m)
            if name == "uniform":
                m["temperature"] = self.temperature()
            elif name == "linear":
                self.maybe(m, "top temperature", self.temperature())
                self.maybe(m, "bottom temperature", self.temperature())
            elif name == "adiabatic":
                self.maybe(m, "potential mantle temperature", r.choice([-1, 1500, 1700]), 0.4)
                self.maybe(m, "thermal expansion coefficient", r.choice([-1, 3e-5, 2.5e-5]), 0.4)
                self.maybe(m, "specific heat", r.choice([-1, 1000, 1250]), 0.4)
            elif name == "chapman":
                self.maybe(m, "top temperature", self.temperature(), 0.6)
                self.maybe(m, "top heat flux", r.choice([0.04, 0.055, 0.0625]), 0.5)
                self.maybe(m, "thermal conductivity", r.choice([2, 2.5, 3]), 0.5)
                self.maybe(m, "heat generation per unit volume", r.choice([1e-6, 5e-7, 0]), 0.5)
            elif name in ("half space model", "plate model"):
                self.maybe(m, "top temperature", r.choice([273, 293.15, 300]), 0.6)
                self.maybe(m, "bottom temperature", r.choice([-1, 1573, 1600]), 0.6)
                m["ridge coordinates"] = self.ridge(c, rad)
                npts = sum(len(x) for x in m["ridge coordinates"])
                if r.random() < 0.6:
                    m["spreading velocity"] = r.choice([0.01, 0.05, 0.025, 0.1])
                else:
                    m["spreading velocity"] = [[0, [[r.choice([0.01, 0.05, 0.025]) for _ in rg] for rg in m["ridge coordinates"]]]]
            elif name == "plate model constant age":
                self.maybe(m, "top temperature", r.choice([273, 293.15, 300]), 0.6)
                self.maybe(m, "bottom temperature", r.choice([-1, 1573, 1600]), 0.6)
                self.maybe(m, "plate age", r.choice([1e6, 2e7, 8e7, 1e5]), 0.8)
            out.append(m)
        return out

    def tian_keys(self, m):
        """the keys of `tian water content` other than the range and the compositions; every one optional"""
        r = self.rng
        self.maybe(m, "density", r.choice([3000, 3300, 2800.5, 1000]), 0.5)
        self.maybe(m, "lithology", r.choice(["peridotite", "gabbro", "MORB", "sediment"]), 0.75)
        self.maybe(m, "initial water content", r.choice([5, 2, 0.5, 11, 0.03125]), 0.5)
        # 0.25 lies below the floor of 0.5 GPa the code imposes afterwards
        self.maybe(m, "cutoff pressure", r.choice([10, 26, 16, 1, 0.25, 3.5]), 0.5)

    def comp_models(self, kind, corners, c, rad):
        r = self.rng
        out = []
        for _ in range(r.choice([0, 1, 1, 2, 3])):
            name = "uniform"
            if kind == "continental plate" and self.with_random and r.random() < 0.4:
                name = "random"
            if kind == "oceanic plate" and r.random() < (0.75 if "tian" in self.focus else 0.3):
                name = "tian water content"
            m = {"model": name}
            self.meta["models"].append(kind + "/C/" + name)
            if kind == "plume":
                self.maybe(m, "min depth", self.depth_value(0, 200e3), 0.4)
                self.maybe(m, "max depth", self.depth_value(200e3, 600e3), 0.4)
            else:
                self.range_keys(m, corners, c, rad)
            n = r.choice([1, 1, 2, 3])
            comps = r.sample(range(0, 5), n)
            m["compositions"] = comps
            if name == "uniform":
                if r.random() < 0.8 or n != 1:
                    m["fractions"] = [r.choice([1, 0.5, 0.25, 0.75, 0.125, 2, 0]) for _ in comps]
            elif name == "tian water content":
                self.tian_keys(m)
            else:
                m["min value"] = [r.choice([0, 0.25]) for _ in comps]
                m["max value"] = [r.choice([0.5, 1]) for _ in comps]
            self.op(m, OPS)
            out.append(m)
        return out

    def vel_models(self, kind, corners, c, rad):
        r = self.rng
        out = []
        for _ in range(r.choice([0, 0, 1, 2])):
            m = {"model": "uniform raw"}
            self.meta["models"].append(kind + "/V/uniform raw")
            if kind == "plume":
                self.maybe(m, "min depth", self.depth_value(0, 200e3), 0.4)
                self.maybe(m, "max depth", self.depth_value(200e3, 600e3), 0.4)
            else:
                self.range_keys(m, corners, c, rad)
            self.maybe(m, "velocity", [r.choice([0, 1, -2, 0.5, 3]) for _ in range(3)], 0.85)
            self.op(m)
            out.append(m)
        return out

    def grains_models(self, kind, corners, c, rad):
        r = self.rng
        out = []
        for _ in range(r.choice([0, 0, 1, 2])):
            names = ["uniform"]
            if self.with_random:
                names += ["random uniform distribution deflected"]
                if kind != "plume":
                    names += ["random uniform distribution"]
            name = r.choice(names)
            m = {"model": name}
            self.meta["models"].append(kind + "/G/" + name)
            if kind == "plume":
                self.maybe(m, "min depth", self.depth_value(0, 200e3), 0.4)
                self.maybe(m, "max depth", self.depth_value(200e3, 600e3), 0.4)
            else:
                self.range_keys(m, corners, c, rad)
            n = r.choice([1, 2])
            comps = r.sample(range(0, 3), n)
            m["compositions"] = comps
            m["grain sizes"] = [r.choice([-1, 0.5, 0.25, 1]) for _ in comps]
            if name == "uniform":
                if r.random() < 0.6:
                    m["Euler angles z-x-z"] = [[r.choice([0, 10, 45, 90, 200]), r.choice([0, 20, 60, 90]), r.choice([0, 30, 120])] for _ in comps]
                else:
                    m["rotation matrices"] = [[[1, 0, 0], [0, 0, -1], [0, 1, 0]] if r.random() < 0.5 else [[0.5, 0.25, 0], [0, 1, 0], [0, 0, 2]] for _ in comps]
            else:
                m["normalize grain sizes"] = [r.random() < 0.5 for _ in comps]
                if name.endswith("deflected"):
                    m["deflections"] = [r.choice([0, 0.25, 0.5, 1, 1e-3, 1e-5]) for _ in comps]
                    if r.random() < 0.6:
                        m["basis Euler angles z-x-z"] = [[r.choice([0, 10, 45]), r.choice([0, 20, 60]), r.choice([0, 30])] for _ in comps]
                    else:
                        m["basis rotation matrices"] = [[[1, 0, 0], [0, 1, 0], [0, 0, 1]] for _ in comps]
            out.append(m)
        return out

    def add_models(self, f, kind, corners, c, rad):
        t = self.temp_models(kind, corners, c, rad)
        v = self.vel_models(kind, corners, c, rad)
        co = self.comp_models(kind, corners, c, rad)
        g = self.grains_models(kind, corners, c, rad)
        # key order in the file is shuffled on purpose (parsing must not depend on it)
        items = [("temperature models", t), ("velocity models", v), ("composition models", co), ("grains models", g)]
        self.rng.shuffle(items)
        for k, val in items:
            if val or self.rng.random() < 0.2:
                f[k] = val


    # ---- line features ---------------------------------------------------------------
    def slab_ridges(self):
        """ridges on the incoming-plate side of the current slab (opposite to the dip point), roughly parallel to the trench,
        one or two ridges offset by a transform fault"""
        r = self.rng
        c, rad, ux, uy, side, tx, ty = self._line_geom
        st = self.step()
        nr = r.choice([1, 1, 2])
        dist = rad * (r.uniform(1.5, 4) if self.spherical else r.uniform(3, 12))
        u = r.random()
        if u < 0.08:
            dist = -dist * 0.5                     # ridge on the overriding side
        elif u < 0.2:
            # a ridge at the trench: very young plate, so that the high-order terms of the plate-model series do not underflow
            dist = rad * (r.uniform(0, 0.02) if self.spherical else r.uniform(0, 0.1))
        half = rad * r.uniform(1.2, 3)
        ridges = []
        k = 0
        npts_list = [r.choice([2, 2, 3]) for _ in range(nr)]
        total = sum(npts_list)
        for i in range(nr):
            pts = []
            off = dist + i * rad * r.uniform(-0.6, 0.6)
            for j in range(npts_list[i]):
                t = -half + 2 * half * (k + (0.15 if j == 0 and i > 0 else 0)) / max(1, total - 1)
                k += 1
                x = c[0] - side * ux * off + tx * t + r.uniform(-0.05, 0.05) * rad
                y = c[1] - side * uy * off + ty * t + r.uniform(-0.05, 0.05) * rad
                p = [round(x / st) * st, round(y / st) * st]
                if self.spherical:
                    p = [max(-359, min(359, p[0])), max(-85, min(85, p[1]))]
                pts.append([int(v) if float(v).is_integer() else v for v in p])
            # a ridge needs two different points
            if pts[0] == pts[-1]:
                pts[-1] = [pts[-1][0] + st, pts[-1][1]]
            ridges.append(pts)
        return ridges

    def slab_plate_model(self, rng_keys):
        r = self.rng
        m = {"model": "plate model", "plate velocity": r.choice([0.01, 0.05, 0.1, 0.02, 0.05, 0.08, 0])}
        self.maybe(m, "min distance slab top", r.choice([0, 0, 5e3, -10e3]), 0.4)
        self.maybe(m, "max distance slab top", r.choice([50e3, 100e3, 150e3, 200e3]), 0.6)
        self.op(m)
        self.maybe(m, "density", r.choice([3300, 3000, 3400.5]), 0.4)
        self.maybe(m, "thermal conductivity", r.choice([2, 2.5, 3.3]), 0.4)
        self.maybe(m, "thermal expansion coefficient", r.choice([-1, 3e-5, 2.5e-5]), 0.4)
        self.maybe(m, "specific heat", r.choice([-1, 1000, 1250]), 0.4)
        self.maybe(m, "adiabatic heating", r.random() < 0.5, 0.5)
        self.maybe(m, "potential mantle temperature", r.choice([-1, 1500, 1650]), 0.4)
        return m

    def slab_mass_conserving(self):
        r = self.rng
        m = {"model": "mass conserving"}
        ridges = self.slab_ridges()
        m["ridge coordinates"] = ridges
        nr = len(ridges)
        vel = lambda: r.choice([0.05, 0.025, 0.1, 0.01, 0.08])
        # spreading velocity: a number, one item with all ridges, or one item per ridge
        form = r.choice(["scalar", "scalar", "one-item", "per-ridge", "per-ridge"])
        per_point_sub = r.random() < 0.3
        if per_point_sub and nr > 1 and not self.slab_ub:
            form = "per-ridge"                     # `ridge_migration_times[relevant_ridge]` must exist
        if form == "scalar":
            v0 = vel()
            m["spreading velocity"] = v0
            table = [[v0 for _ in rg] for rg in ridges]
        else:
            if r.random() < 0.5:
                v0 = vel()
                table = [[v0 for _ in rg] for rg in ridges]
            else:
                table = [[vel() for _ in rg] for rg in ridges]
            if form == "one-item":
                m["spreading velocity"] = [[r.choice([0, 1e6]), table]]
            else:
                m["spreading velocity"] = [[r.choice([0, 1e6, 5e6]), [row]] for row in table]
        u = r.random()
        if per_point_sub:
            sub = [list(row) for row in table]
            if u < 0.015:
                sub[-1] = sub[-1] + [sub[-1][-1]]                  # wrong dimension: refused
            elif u < 0.03:
                sub[0][0] = sub[0][0] * 2                       # not approx equal: refused
            m["subducting velocity"] = sub
        elif u < 0.6:
            m["subducting velocity"] = table[0][0] if r.random() < 0.8 else [[table[0][0]]]
        elif u < 0.9:
            m["subducting velocity"] = vel()
        elif u < 0.95:
            m["subducting velocity"] = [[vel()] for _ in ridges]     # first entries of length 1: treated as one value
        else:
            m["subducting velocity"] = r.choice([0, -0.05])
        if r.random() < 0.015:
            m["spreading velocity"] = [[0, [[0.05, 0.05, 0.05, 0.05, 0.05, 0.05, 0.05]]]]     # wrong number of values: refused
        self.maybe(m, "min distance slab top", r.choice([-200e3, -100e3, -50e3, 0, -10e3, -250e3]), 0.8)
        self.maybe(m, "max distance slab top", r.choice([100e3, 150e3, 200e3, 300e3, 50e3]), 0.85)
        self.op(m)
        self.maybe(m, "density", r.choice([3300, 3000, 3400.5]), 0.4)
        self.maybe(m, "thermal conductivity", r.choice([3.3, 2.5, 4]), 0.4)
        self.maybe(m, "coupling depth", r.choice([100e3, 80e3, 50e3, 150e3, 0]), 0.5)
        self.maybe(m, "forearc cooling factor", r.choice([1, 5, 10, 20, 0.5]), 0.5)
        self.maybe(m, "taper distance", r.choice([100e3, 50e3, 200e3, 0, 400e3, 300e3]), 0.6)   # incl. tapers longer than the slab (they start above the coupling depth)
        self.maybe(m, "thermal expansion coefficient", r.choice([-1, 3e-5, 2.5e-5]), 0.4)
        self.maybe(m, "specific heat", r.choice([-1, 1000, 1250]), 0.4)
        self.maybe(m, "thermal diffusivity", r.choice([-1, 1e-6, 8e-7]), 0.4)
        self.maybe(m, "adiabatic heating", r.random() < 0.5, 0.5)
        self.maybe(m, "potential mantle temperature", r.choice([-1, 1500, 1650]), 0.4)
        names = ["half space model", "plate model"] + (["other model"] if self.slab_ub else [])
        self.maybe(m, "reference model name", r.choice(names), 0.7)
        self.maybe(m, "apply spline", r.random() < 0.6, 0.7)
        self.maybe(m, "number of points in spline", r.choice([1, 2, 3, 5, 8, 5, 0] if r.random() < 0.2 else [1, 2, 3, 5, 8]), 0.6)
        if m.get("apply spline") is True and "max distance slab top" not in m and m.get("number of points in spline") != 8:
            # the spline needs a finite sampling range (refused since upstream 7d5ade92); a few refused ones are kept (8 points)
            m["max distance slab top"] = 200e3
        return m

    def line_models(self, kind, level):
        """model lists for a slab / fault at one level (feature, section or segment); keys omitted at random"""
        r = self.rng
        fault = kind == "fault"
        dk = "fault center" if fault else "slab top"
        out = {}
        def rng_keys(m, allow_max=True):
            self.maybe(m, "min distance " + dk, r.choice([0, 0, 5e3, -10e3] if not fault else [0, 0, 5e3]), 0.4)
            if allow_max:
                self.maybe(m, "max distance " + dk, r.choice([20e3, 50e3, 100e3, 150e3]), 0.6)
        if r.random() < 0.6:
            ms = []
            for _ in range(r.choice([1, 1, 2])):
                if not fault and self.slab_models and self._line_geom is not None and r.random() < self.slab_models:
                    name = r.choice(["plate model", "mass conserving", "mass conserving"])
                    self.meta["models"].append(kind + "/T/" + name)
                    ms.append(self.slab_plate_model(rng_keys) if name == "plate model" else self.slab_mass_conserving())
                    continue
                name = r.choice(["uniform", "linear", "adiabatic"])
                m = {"model": name}
                self.meta["models"].append(kind + "/T/" + name)
                rng_keys(m)
                self.op(m)
                if name == "uniform":
                    m["temperature"] = self.temperature()
                elif name == "linear":
                    m["max distance " + dk] = r.choice([20e3, 50e3, 100e3, 150e3])
                    if fault:
                        self.maybe(m, "center temperature", self.temperature()); self.maybe(m, "side temperature", self.temperature())
                    else:
                        self.maybe(m, "top temperature", self.temperature()); self.maybe(m, "bottom temperature", self.temperature())
                else:
                    self.maybe(m, "potential mantle temperature", r.choice([-1, 1500]), 0.3)
                ms.append(m)
            out["temperature models"] = ms
        if r.random() < 0.6:
            ms = []
            for _ in range(r.choice([1, 1, 2])):
                name = r.choice(["uniform", "uniform", "smooth"])
                if not fault and r.random() < (0.7 if "tian" in self.focus else 0.3):
                    name = "tian water content"
                m = {"model": name}
                self.meta["models"].append(kind + "/C/" + name)
                n = r.choice([1, 2])
                comps = r.sample(range(0, 4), n)
                m["compositions"] = comps
                if name == "uniform":
                    rng_keys(m)
                    if r.random() < 0.8 or n != 1:
                        m["fractions"] = [r.choice([1, 0.5, 0.25, 0.75, 0]) for _ in comps]
                elif name == "tian water content":
                    rng_keys(m)
                    self.tian_keys(m)
                else:
                    if fault:
                        self.maybe(m, "min distance fault center", r.choice([0, 5e3]), 0.3)
                        m["side distance fault center"] = r.choice([20e3, 50e3, 100e3])
                        m["center fractions"] = [r.choice([1, 0.5]) for _ in comps]
                        m["side fractions"] = [r.choice([0, 0.25]) for _ in comps]
                    else:
                        m["min distance slab top"] = r.choice([0, 5e3])
                        m["max distance slab top"] = r.choice([50e3, 100e3])
                        m["top fractions"] = [r.choice([1, 0.5]) for _ in comps]
                        m["bottom fractions"] = [r.choice([0, 0.25]) for _ in comps]
                self.op(m, OPS)
                ms.append(m)
            out["composition models"] = ms
        if r.random() < 0.3:
            m = {"model": "uniform raw", "velocity": [r.choice([0, 1, -2, 0.5]) for _ in range(3)]}
            rng_keys(m)
            self.op(m)
            self.meta["models"].append(kind + "/V/uniform raw")
            out["velocity models"] = [m]
        if r.random() < (0.7 if "line random" in self.focus else 0.3):
            ms = []
            for _ in range(r.choice([1, 1, 2, 3]) if self.with_random else 1):
                names = ["uniform"]
                if self.with_random:
                    names += ["random uniform distribution", "random uniform distribution deflected"] * (3 if "line random" in self.focus else 1)
                name = r.choice(names)
                comps = r.sample(range(0, 3), r.choice([1, 2]))
                m = {"model": name, "compositions": comps, "grain sizes": [r.choice([-1, 0.5, 0.25]) for _ in comps]}
                if name == "uniform":
                    if r.random() < 0.6:
                        m["Euler angles z-x-z"] = [[r.choice([0, 10, 45, 90, 200]), r.choice([0, 20, 60, 90]), r.choice([0, 30, 120])] for _ in comps]
                    else:
                        m["rotation matrices"] = [[[1, 0, 0], [0, 0, -1], [0, 1, 0]] if r.random() < 0.5 else [[0, 1, 0], [-1, 0, 0], [0, 0, 1]] for _ in comps]
                else:
                    if r.random() < 0.97:
                        m["normalize grain sizes"] = [r.random() < 0.5 for _ in comps]
                    elif len(comps) != 1:
                        m["normalize grain sizes"] = [r.random() < 0.5 for _ in comps]
                    if name.endswith("deflected"):
                        m["deflections"] = [r.choice([0, 0.25, 0.5, 1, 1e-3, 1e-5]) for _ in comps]
                        if r.random() < 0.6:
                            m["basis Euler angles z-x-z"] = [[r.choice([0, 10, 45]), r.choice([0, 20, 60]), r.choice([0, 30])] for _ in comps]
                        else:
                            m["basis rotation matrices"] = [[[1, 0, 0], [0, 1, 0], [0, 0, 1]] if r.random() < 0.5 else [[0, 1, 0], [-1, 0, 0], [0, 0, 1]] for _ in comps]
                rng_keys(m)
                self.meta["models"].append(kind + "/G/" + name)
                ms.append(m)
            out["grains models"] = ms
        return out

    def segments(self, kind, nseg, with_models):
        r = self.rng
        segs = []
        for i in range(nseg):
            a0 = r.choice([10, 20, 30, 45, 60, 80, 90, 100])
            a1 = a0 if r.random() < 0.5 else r.choice([10, 30, 45, 60, 70, 90])
            t0 = r.choice([50e3, 100e3, 150e3])
            # rarely: a section of zero thickness (the feature returns before computing anything there) or a segment of zero length (skipped by the plane walk)
            u = r.random()
            if u < 0.03:
                t0 = 0
            sg = {"length": 0 if 0.03 <= u < 0.05 and nseg > 1 else r.choice([100e3, 200e3, 300e3, 150e3]),
                  "thickness": [t0] if r.random() < 0.5 or t0 == 0 else [t0, r.choice([50e3, 100e3, 200e3])],
                  "angle": [a0] if a0 == a1 and r.random() < 0.7 else [a0, a1]}
            if r.random() < 0.3 and kind != "fault":
                tt = r.choice([0, 10e3, -10e3, 25e3, -150e3, -300e3])
                sg["top truncation"] = [tt] if r.random() < 0.5 else [tt, r.choice([0, 10e3])]
            if with_models and r.random() < 0.4:
                sg.update(self.line_models(kind, "segment"))
            segs.append(sg)
        return segs

    def line(self, kind, c=None, rad=None):
        r = self.rng
        c = c or self.center()
        rad = rad or self.scale()
        st = self.step()
        npts = r.choice([2, 2, 3, 4, 5])
        az = r.uniform(0, 2 * math.pi)
        # polyline with bends of at most ~50 degrees
        pts = []
        x, y = c[0] - rad * math.cos(az), c[1] - rad * math.sin(az)
        steplen = 2 * rad / (npts - 1)
        for i in range(npts):
            pts.append([round(x / st) * st, round(y / st) * st])
            az += r.uniform(-0.8, 0.8) if i > 0 else 0
            x += steplen * math.cos(az); y += steplen * math.sin(az)
        if self.spherical:
            pts = [[max(-359, min(359, p[0])), max(-80, min(80, p[1]))] for p in pts]
        pts = [[int(v) if float(v).is_integer() else v for v in p] for p in pts]
        out = []
        for p in pts:
            if not out or out[-1] != p:
                out.append(p)
        if len(out) < 2:
            return self.line(kind)
        pts = out
        side = r.choice([-1, 1])
        nx, ny = -(pts[-1][1] - pts[0][1]), (pts[-1][0] - pts[0][0])
        nn = math.hypot(nx, ny) or 1.0
        dip = [round((c[0] + side * rad * nx / nn) / st) * st, round((c[1] + side * rad * ny / nn) / st) * st]
        dip = [int(v) if float(v).is_integer() else v for v in dip]
        f = {"model": kind, "coordinates": pts, "dip point": dip}
        tl = math.hypot(pts[-1][0] - pts[0][0], pts[-1][1] - pts[0][1]) or 1.0
        self._line_geom = (c, rad, nx / nn, ny / nn, side, (pts[-1][0] - pts[0][0]) / tl, (pts[-1][1] - pts[0][1]) / tl)
        self.maybe(f, "name", "l%d" % len(self.meta["features"]), 0.9)
        self.maybe(f, "tag", r.choice(["", "slab", kind]), 0.3)
        self.maybe(f, "min depth", r.choice([0, 0, 10e3, 50e3]), 0.4)
        self.maybe(f, "max depth", r.choice([200e3, 400e3, 660e3]), 0.5)
        nseg = r.choice([1, 1, 2, 3])
        f.update(self.line_models(kind, "feature"))
        f["segments"] = self.segments(kind, nseg, True)
        if r.random() < 0.4:
            secs = []
            for ci in r.sample(range(len(pts)), r.randint(1, min(2, len(pts)))):
                sec = {"coordinate": ci, "segments": self.segments(kind, nseg, True)}
                if r.random() < 0.5:
                    sec.update(self.line_models(kind, "section"))
                secs.append(sec)
            f["sections"] = secs
        self.meta["features"].append(kind)
        return f, c, rad

    # ---- features --------------------------------------------------------------------
    def area(self, kind, c=None, rad=None):
        r = self.rng
        corners, c, rad = self.polygon(c, rad)
        f = {"model": kind, "coordinates": corners}
        self.maybe(f, "name", "f%d" % len(self.meta["features"]), 0.8)
        self.maybe(f, "tag", r.choice(["", "crust", "mantle", kind]), 0.3)
        lo = r.choice([0, 0, 0, 50e3, 100e3])
        self.maybe(f, "min depth", self.depth_entry(corners, c, rad, lo, lo + 100e3), 0.5)
        self.maybe(f, "max depth", self.depth_entry(corners, c, rad, lo + 100e3, lo + 400e3), 0.8)
        self.add_models(f, kind, corners, c, rad)
        self.meta["features"].append(kind)
        return f, c, rad

    def plume(self, c=None, rad=None):
        r = self.rng
        c = c or self.center()
        rad = rad or self.scale()
        n = r.choice([1, 2, 3, 4])
        st = self.step()
        depths = sorted(set(self.depth_value(50e3, 600e3) for _ in range(n)))
        n = len(depths)
        coords = []
        for i in range(n):
            p = [c[0] + r.uniform(-0.3, 0.3) * rad, c[1] + r.uniform(-0.3, 0.3) * rad]
            coords.append([int(v) if float(v).is_integer() else v for v in (round(p[0] / st) * st, round(p[1] / st) * st)])
        f = {"model": "plume", "coordinates": coords, "cross section depths": depths,
             "semi-major axis": [dy(r, rad * 0.25, rad, st) for _ in depths],
             "eccentricity": [r.choice([0, 0.25, 0.5, 0.75]) for _ in depths],
             "rotation angles": [r.choice([0, 30, 90, 170, 350, 10]) for _ in depths]}
        self.maybe(f, "name", "p%d" % len(self.meta["features"]), 0.8)
        self.maybe(f, "min depth", dy(r, 0, depths[0] - 5e3, 5e3) if depths[0] > 5e3 else 0, 0.7)
        self.maybe(f, "max depth", self.depth_value(depths[-1], 800e3), 0.7)
        self.add_models(f, "plume", coords, c, rad)
        self.meta["features"].append("plume")
        return f, c, rad

    def world(self):
        r = self.rng
        w = {"version": "1.1"}
        if self.spherical:
            cs = {"model": "spherical", "depth method": r.choice(["starting point", "begin segment", "begin at end segment"])}
            self.maybe(cs, "radius", r.choice([6371000, 6000000, 1000000]), 0.3)
            self.radius = cs.get("radius", 6371000)
            w["coordinate system"] = cs
        elif r.random() < 0.3:
            w["coordinate system"] = {"model": "cartesian"}
        if r.random() < 0.3:
            w["gravity model"] = {"model": "uniform", "magnitude": r.choice([9.81, 10, 1.5])}
        self.maybe(w, "potential mantle temperature", r.choice([1600, 1500, 1700.5] + ([-1] if self.slab_models else [])), 0.3)
        self.maybe(w, "surface temperature", r.choice([293.15, 273, 300]), 0.3)
        self.maybe(w, "force surface temperature", r.random() < 0.7, 0.3)
        self.maybe(w, "thermal expansion coefficient", r.choice([3.5e-5, 3e-5, 2e-5]), 0.3)
        self.maybe(w, "specific heat", r.choice([1250, 1000]), 0.3)
        self.maybe(w, "thermal diffusivity", r.choice([0.804e-6, 1e-6, 5e-7]), 0.3)
        feats = []
        regions = []
        nf = r.randint(0, self.max_features)
        for i in range(nf):
            kind = r.choice(self.allow)
            # overlap earlier features with probability 1/2
            c, rad = (None, None)
            if regions and r.random() < 0.5:
                c0, rad0 = r.choice(regions)
                st = self.step()
                c = [round((c0[0] + r.uniform(-0.5, 0.5) * rad0) / st) * st, round((c0[1] + r.uniform(-0.5, 0.5) * rad0) / st) * st]
                c = [int(v) if float(v).is_integer() else v for v in c]
                rad = rad0
            if kind == "plume":
                f, c, rad = self.plume(c, rad)
            elif kind in ("subducting plate", "fault"):
                f, c, rad = self.line(kind, c, rad)
            else:
                f, c, rad = self.area(kind, c, rad)
            feats.append(f)
            regions.append((c, rad))
        w["features"] = feats
        self.regions = regions
        if self.with_cross:
            if regions:
                c, rad = r.choice(regions)
            else:
                c, rad = self.center(), self.scale()
            a = r.uniform(0, 2 * math.pi)
            st = self.step()
            p0 = [round((c[0] - rad * math.cos(a)) / st) * st, round((c[1] - rad * math.sin(a)) / st) * st]
            p1 = [round((c[0] + rad * math.cos(a)) / st) * st, round((c[1] + rad * math.sin(a)) / st) * st]
            if p0 == p1:
                p1 = [p0[0] + st, p0[1]]
            w["cross section"] = [[int(v) if float(v).is_integer() else v for v in p0], [int(v) if float(v).is_integer() else v for v in p1]]
        if self.with_random and r.random() < 0.3:
            w["random number seed"] = r.choice([0, 1, 7, 1000])
        # top-level key order shuffled too
        keys = list(w.keys())
        r.shuffle(keys)
        return {k: w[k] for k in keys}

    # ---- queries ---------------------------------------------------------------------
    def surface_positions(self, world):
        """candidate surface positions: interiors, vertices, edge midpoints, outside points, special places"""
        r = self.rng
        pos = []
        for f in world["features"]:
            cs = f["coordinates"]
            if f["model"] in ("subducting plate", "fault"):
                dp = f["dip point"]
                for i, p in enumerate(cs):
                    pos.append(list(p))
                    if i + 1 < len(cs):
                        q = cs[i + 1]
                        for t in (0.25, 0.5, r.random()):
                            m = [p[0] + t * (q[0] - p[0]), p[1] + t * (q[1] - p[1])]
                            pos.append(m)
                            for u in (0.05, 0.2, 0.5, r.random(), -0.1):
                                pos.append([m[0] + u * (dp[0] - m[0]), m[1] + u * (dp[1] - m[1])])
                continue
            if f["model"] == "plume":
                for p in cs:
                    pos.append(list(p))
                    pos.append([p[0] + r.uniform(-1, 1) * self.step() * 40, p[1] + r.uniform(-1, 1) * self.step() * 40])
                continue
            cx = sum(p[0] for p in cs) / len(cs)
            cy = sum(p[1] for p in cs) / len(cs)
            pos.append([cx, cy])
            for i, p in enumerate(cs):
                q = cs[(i + 1) % len(cs)]
                pos.append(list(p))                                    # vertex
                pos.append([(p[0] + q[0]) / 2, (p[1] + q[1]) / 2])     # edge midpoint
                t = r.random()
                pos.append([cx + t * (p[0] - cx), cy + t * (p[1] - cy)])  # interior ray
                pos.append([cx + 1.5 * (p[0] - cx), cy + 1.5 * (p[1] - cy)])  # outside
            for key in ("min depth", "max depth"):
                v = f.get(key)
                if isinstance(v, list):
                    for it in v:
                        if len(it) > 1:
                            pos.extend(list(p) for p in it[1])
        for (c, rad) in getattr(self, "regions", []):
            for _ in range(3):
                pos.append([c[0] + r.uniform(-1.2, 1.2) * rad, c[1] + r.uniform(-1.2, 1.2) * rad])
        if not pos:
            pos = [self.center() for _ in range(4)]
        if self.spherical:
            pos += [[0, 90], [0, -90], [180, 0], [-180, 0], [0, 0]]
            # the same place described with longitude ± 360
            extra = []
            for p in pos[:6]:
                extra.append([p[0] + 360 if p[0] < 0 else p[0] - 360, p[1]])
            pos += extra
        else:
            pos += [[0, 0]]
        return pos

    def depths_of_interest(self, world):
        ds = [0, 0, -1000.0, 1e3, 25e3, 100e3, 333e3]
        def collect(v):
            if isinstance(v, (int, float)):
                ds.append(v)
            elif isinstance(v, list):
                for it in v:
                    if isinstance(it, list) and it and isinstance(it[0], (int, float)):
                        ds.append(it[0])
        for f in world["features"]:
            if "segments" in f:
                ds.extend([10e3, 50e3, 75e3, 120e3, 200e3, 300e3])
            for key in ("min depth", "max depth"):
                if key in f:
                    collect(f[key])
            for d in f.get("cross section depths", []):
                ds.append(d)
            for mk in ("temperature models", "composition models", "velocity models", "grains models"):
                for m in f.get(mk, []):
                    for key in ("min depth", "max depth"):
                        if key in m:
                            collect(m[key])
        out = []
        for d in ds:
            out += [d, d + 0.5, d - 0.5, d * 0.5]
        return out

    def point3(self, sp, depth, surface_level=1000e3):
        """cartesian 3-D query point for a surface position and a depth"""
        if self.spherical:
            rr = self.radius - depth
            lon = sp[0] * math.pi / 180.0
            lat = sp[1] * math.pi / 180.0
            cl = rr * math.sin(0.5 * math.pi - lat)
            return [cl * math.cos(lon), cl * math.sin(lon), rr * math.cos(0.5 * math.pi - lat)]
        return [sp[0], sp[1], surface_level - depth]

    def slab_query(self, f):
        """(surface position, depth) aimed at the body of the slab `f`: a place along the trench, a distance along the
        (straightened) segments, an offset across the slab.  Approximate on purpose; it only has to land inside often."""
        r = self.rng
        cs = f["coordinates"]
        i = r.randrange(len(cs) - 1)
        p, q = cs[i], cs[i + 1]
        t = r.choice([0, 1, 0.5, r.random(), r.random()])
        m = [p[0] + t * (q[0] - p[0]), p[1] + t * (q[1] - p[1])]
        dp = f["dip point"]
        nx, ny = -(q[1] - p[1]), (q[0] - p[0])
        nn = math.hypot(nx, ny) or 1.0
        nx, ny = nx / nn, ny / nn
        if nx * (dp[0] - m[0]) + ny * (dp[1] - m[1]) < 0:
            nx, ny = -nx, -ny
        segs = f["segments"]
        total = sum(sg["length"] for sg in segs)
        a = r.choice([0, total, r.uniform(0, total), r.uniform(0, total), r.uniform(0, 1.05 * total)])
        x = z = 0.0
        ang = 0.0
        for sg in segs:
            an = sg["angle"]
            ang = math.radians(sum(an) / len(an))
            l = min(a, sg["length"])
            x += l * math.cos(ang); z += l * math.sin(ang)
            a -= l
            if a <= 0:
                break
        d = r.choice([0, r.uniform(-120e3, 0), r.uniform(-280e3, -100e3), r.uniform(0, 30e3), r.uniform(0, 160e3), r.uniform(0, 160e3)])
        x -= d * math.sin(ang); z += d * math.cos(ang)
        if self.spherical:
            x = x / (self.radius * math.pi / 180.0)
        sp = [m[0] + nx * x, m[1] + ny * x]
        if self.spherical:
            sp = [max(-359.5, min(359.5, sp[0])), max(-89.5, min(89.5, sp[1]))]
        return sp, f.get("min depth", 0) + z

    def queries(self, world, n):
        r = self.rng
        pos = self.surface_positions(world)
        ds = self.depths_of_interest(world)
        out = []
        slabs = [f for f in world["features"] if f["model"] == "subducting plate"] if self.slab_models else []
        for _ in range(n):
            if slabs and r.random() < 0.5:
                sp, d = self.slab_query(r.choice(slabs))
                out.append((self.point3(sp, d), float(d)))
                continue
            sp = r.choice(pos)
            d = r.choice(ds) if r.random() < 0.7 else r.uniform(-10e3, 700e3)
            out.append((self.point3(sp, d), float(d)))
        return out

    def queries2d(self, world, n):
        """2-D queries (x,z) for worlds with a cross section"""
        r = self.rng
        cs = world.get("cross section")
        out = []
        ds = self.depths_of_interest(world)
        for _ in range(n):
            d = r.choice(ds) if r.random() < 0.7 else r.uniform(-10e3, 700e3)
            if self.spherical:
                ang = r.uniform(-0.2, 1.2) * 0.3
                rr = self.radius - d
                out.append(([rr * math.cos(ang), rr * math.sin(ang)], float(d)))
            else:
                L = math.hypot(cs[1][0] - cs[0][0], cs[1][1] - cs[0][1]) if cs else 1e5
                x = r.uniform(-0.2, 1.2) * L
                out.append(([x, 1000e3 - d], float(d)))
        return out

    def props(self, max_len=6, grains_k=(0, 1, 2, 3)):
        r = self.rng
        n = r.randint(1, max_len)
        out = []
        for _ in range(n):
            k = r.random()
            if k < 0.3:
                out.append((1, 0, 0))
            elif k < 0.55:
                out.append((2, r.randint(0, 4), 0))
            elif k < 0.7:
                out.append((3, r.randint(0, 2), r.choice(grains_k)))
            elif k < 0.85:
                out.append((4, 0, 0))
            else:
                out.append((5, 0, 0))
        if self.slab_models and r.random() < 0.6 and (1, 0, 0) not in out:
            out.insert(r.randrange(len(out) + 1), (1, 0, 0))      # the slab-only models are temperature models
        return out
