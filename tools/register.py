#!/usr/bin/env python3
"""register.py <id> <category> <text> <note> <technique>  — add/replace a check in MANIFEST.json and drop it from not_applicable."""
import json, sys
pid, cat, text, note, tech = sys.argv[1:6]
p = '/verif/MANIFEST.json'
m = json.load(open(p))
m['checks'] = [c for c in m['checks'] if c['property_id'] != pid]
m['checks'].append({"property_id": pid, "quick_cmd": "python3 tools/check.py %s --tier quick" % pid, "thorough_cmd": "python3 tools/check.py %s --tier thorough" % pid,
                    "evidence_file": "evidence/%s.json" % pid, "replay_cmd_template": "python3 tools/check.py %s --replay {path}" % pid, "engine": "lean-model",
                    "level_claimed": {"category": cat, "text": text, "design_ref": "DESIGN.md section 6 %s" % pid}, "level_note": note, "technique": tech})
m['checks'].sort(key=lambda c: c['property_id'])
m['not_applicable'] = [x for x in m['not_applicable'] if x['property_id'] != pid]
json.dump(m, open(p, 'w'), indent=1)
