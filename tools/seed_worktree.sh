#!/bin/bash
# Create a scratch git worktree of /repo for a seeded-change sub-agent and build it like the baseline.
# usage: seed_worktree.sh <dir>        (dir outside /repo and /verif, e.g. /tmp/seed/C01)
set -e
d="$1"
mkdir -p "$(dirname "$d")"
git -C /repo worktree add --detach "$d" HEAD >/dev/null 2>&1
cmake -G Ninja -S "$d" -B "$d/_build" -DCMAKE_BUILD_TYPE=RelWithDebInfo -DWB_ENABLE_PYTHON=OFF -DWB_MAKE_FORTRAN_WRAPPER=OFF >/dev/null
cmake --build "$d/_build" -j "${2:-8}" >/dev/null
echo "ready $d"
