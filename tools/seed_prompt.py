#!/usr/bin/env python3
"""Print the prompt given to a seeded-change sub-agent for property <id> (only the property text + its worktree)."""
import json, sys
pid = sys.argv[1]
p = [json.loads(l) for l in open('/verif/properties.jsonl') if json.loads(l)['id'] == pid][0]
d = "/tmp/seed/%s" % (sys.argv[2] if len(sys.argv) > 2 else pid)
print(f"""You are given a scratch git worktree of the Geodynamic World Builder (a C++14 library plus the tools gwb-dat and gwb-grid that compute temperature/composition/grains/velocity/tag fields for tectonic features from a JSON parameter file) at {d}. It is already configured and built in {d}/_build (Ninja; rebuild with `cmake --build {d}/_build -j6`; library {d}/_build/lib/libWorldBuilder.a, headers {d}/include and {d}/_build/include, tools {d}/_build/bin/gwb-dat and gwb-grid). The test suite is run with `ctest --test-dir {d}/_build -j6 --timeout 900`; on the unchanged tree 134 of 135 tests pass (grid_fault_edge_limits always fails and does not count). Work ONLY inside {d}: do not read, search or modify /repo or /verif, and use no network.

Here is a semantic property that the code base is supposed to satisfy:

  Title: {p['title']}
  Statement: {p['statement']}
  It is meant to hold for: {p['quantifier']['text']}

Your task: write a change to the World Builder sources (files under {d}/source or {d}/include only; do not touch tests/) that BREAKS this property, while the code still compiles and the existing test suite still passes exactly as before (the same 134 tests pass, none edited). The change must be realistic - the kind of slip a maintainer could plausibly introduce (a refactoring or optimisation slip, an off-by-one, a wrong index, a dropped case, a stale cache, a tolerance change, a copy/paste between sibling classes) - and it must need something SPECIFIC to manifest: an unusual but valid input, a particular multi-step sequence of operations, a particular interleaving, a particular parameter combination, or two cooperating sites that each look fine alone. Do not choose a change that ordinary use would expose at once, and do not make it depend on magic constants that no reasonable code would contain (no `if (x == 12345)` backdoors).

Also write a demonstration: a small C++ program linking the built library (link with `g++ -std=c++14 -I{d}/include -I{d}/_build/include demo.cc -Wl,--whole-archive {d}/_build/lib/libWorldBuilder.a -Wl,--no-whole-archive -pthread` - the whole-archive flags are required, otherwise the plugin registrations are dropped), or a script driving gwb-dat/gwb-grid, which exits non-zero WITH your change and exits 0 WITHOUT it (it must check the property itself, e.g. compare two answers that the property says are equal, or compare with a value computed independently from the property statement - not compare against a recorded output of the old code). Verify both directions yourself: build with the change, run the full test suite (134 pass), run the demo (fails); `git stash` the change, rebuild, run the demo (passes); then re-apply the change.

Deliver in {d}/out/ : patch.diff (output of `git diff` for the source change only), the demo source(s) and any input files, run_demo.sh (usage: run_demo.sh <worktree-dir>; builds the demo against <worktree-dir>/_build and runs it; exit 0 = property holds, non-zero = violated), and NOTES.md (what the change is, which part of the property it breaks, what is needed for it to manifest, what you ran and the results). Note for Cartesian worlds: query points use z = (surface level) - depth with a positive surface level, e.g. z + depth = 1000e3. Finish by leaving the worktree with your change applied and the build up to date. In your final answer give a five-line summary.""")
