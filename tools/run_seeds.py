#!/usr/bin/env python3
"""Run the registered checks against the seeded changes (seeded/<id>/patch.diff) WITHOUT touching /repo:
a scratch git worktree of /repo HEAD is created outside /repo and /verif, each patch is applied there, and the checks are pointed at it
through GWB_REPO.  Meant to be run from a scratch copy of /verif (so that build caches, evidence and generated Lean files of the real
/verif are not disturbed):

    rsync -a --exclude .cache --exclude replays --exclude evidence /verif/ /tmp/seedrun/verif/
    cd /tmp/seedrun/verif && python3 tools/run_seeds.py /tmp/seedrun/wt /tmp/seedrun/results.json [seed ids…]

For each seed the property's own check and the cross-cutting ones listed in EXTRA are run at the quick tier; the result file maps
seed id -> {check id -> {"exit": code, "lines": [VIOLATION …]}}."""
import json, os, subprocess, sys
HERE = os.path.dirname(os.path.abspath(__file__))
VERIF = os.path.dirname(HERE)
EXTRA = {"C01": [], "C02": ["C01"], "C03": ["C01"], "C04": ["C11", "C19"], "C05": ["C20", "C01"], "C06": ["C07", "C19", "C01"], "C07": ["C01"], "C08": ["C01", "C05"], "C09": ["C01"],
         "C10": ["C01", "C07"], "C11": ["C04", "C01"], "C12": ["C13"], "C13": ["C12", "C01"], "C14": [], "C15": ["C01"], "C16": [], "C17": [], "C18": ["C14"], "C19": ["C04"], "C20": ["C05"]}


def sh(cmd, **kw):
    return subprocess.run(cmd, stdout=subprocess.PIPE, stderr=subprocess.STDOUT, text=True, **kw)


def main():
    wt, out = sys.argv[1], sys.argv[2]
    ids = sys.argv[3:] or sorted(d for d in os.listdir(os.path.join(VERIF, "seeded")) if os.path.exists(os.path.join(VERIF, "seeded", d, "patch.diff")))
    registered = {c["property_id"] for c in json.load(open(os.path.join(VERIF, "MANIFEST.json")))["checks"]}
    if not os.path.isdir(wt):
        r = sh(["git", "-C", "/repo", "worktree", "add", "--detach", wt, "HEAD"])
        if r.returncode != 0:
            print(r.stdout); return 2
    results = json.load(open(out)) if os.path.exists(out) else {}
    env = dict(os.environ, GWB_REPO=wt)
    for sid in ids:
        prop = sid.split("-")[0]
        patch = os.path.join(VERIF, "seeded", sid, "patch.diff")
        sh(["git", "-C", wt, "checkout", "--", "."])
        r = sh(["git", "-C", wt, "apply", patch])
        if r.returncode != 0:
            results[sid] = {"error": "patch does not apply to HEAD: " + r.stdout[:300]}
            json.dump(results, open(out, "w"), indent=1); continue
        res = {}
        for cid in [prop] + EXTRA.get(prop, []):
            if cid not in registered:
                res[cid] = {"exit": None, "lines": ["not registered"]}; continue
            r = sh([sys.executable, os.path.join(VERIF, "tools", "check.py"), cid, "--tier", "quick"], cwd=VERIF, env=env)
            lines = [l for l in r.stdout.split("\n") if l.startswith("VIOLATION") or l.startswith(cid + ":")]
            res[cid] = {"exit": r.returncode, "lines": lines[:4]}
            print(sid, cid, r.returncode, lines[-1:] , flush=True)
        results[sid] = res
        json.dump(results, open(out, "w"), indent=1)
        sh(["git", "-C", wt, "checkout", "--", "."])
    return 0


if __name__ == "__main__":
    sys.exit(main())
