#!/usr/bin/env python3-vt
"""Independent JSON-Schema oracle (python `jsonschema`, draft 4) used by the C12 check to label generated documents.
usage: python3-vt tools/schema_oracle.py <schema.json> <list-file>      (list-file: one document path per line)
prints one line per document: `valid` | `invalid <first error path>` | `unparseable`
Annotation keywords of the declarations (`default value`, `documentation`, `description`) are ignored by the validator."""
import json, sys
import jsonschema


def main():
    schema = json.load(open(sys.argv[1]))
    v = jsonschema.Draft4Validator(schema)
    for path in open(sys.argv[2]).read().split("\n"):
        if not path:
            continue
        try:
            doc = json.load(open(path))
        except Exception:
            print("unparseable")
            continue
        try:
            err = next(v.iter_errors(doc), None)
        except RecursionError:
            print("invalid recursion")
            continue
        if err is None:
            print("valid")
        else:
            print("invalid %s: %s" % ("/".join(str(p) for p in err.absolute_path), err.message[:80].replace("\n", " ")))


if __name__ == "__main__":
    main()
