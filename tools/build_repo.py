#!/usr/bin/env python3
"""Build the WorldBuilder library (and optionally the apps) from /repo's *current working tree*.

The build directory is keyed by a content hash of every file that can influence the library
(source/, include/, CMakeLists.txt, cmake/, VERSION), so an edited tree is always rebuilt and an
unchanged tree is never rebuilt.  Build products live under /verif/.cache (never under /tmp).

variants:
  plain  RelWithDebInfo (-O2 -g -DNDEBUG, as the pinned baseline) + -DGWB_VERIF, library only
  apps   as plain, plus gwb-dat and gwb-grid
  asan   -O1 -g -DNDEBUG -fsanitize=address,undefined -fno-sanitize-recover=all + -DGWB_VERIF
  tsan   -O1 -g -DNDEBUG -fsanitize=thread + -DGWB_VERIF
  nohook as plain but without -DGWB_VERIF (used by baseline_off)
"""
import hashlib, os, shutil, subprocess, sys, time, fcntl

HERE = os.path.dirname(os.path.abspath(__file__))
VERIF = os.path.dirname(HERE)
REPO = os.environ.get("GWB_REPO", "/repo")
CACHE = os.path.join(VERIF, ".cache")

HASH_DIRS = ["source", "include", "cmake"]
HASH_FILES = ["CMakeLists.txt", "VERSION"]


def tree_hash(repo=REPO):
    h = hashlib.sha256()
    paths = []
    for d in HASH_DIRS:
        for root, dirs, files in os.walk(os.path.join(repo, d)):
            dirs.sort()
            for f in sorted(files):
                paths.append(os.path.join(root, f))
    for f in HASH_FILES:
        p = os.path.join(repo, f)
        if os.path.exists(p):
            paths.append(p)
    for p in sorted(paths):
        h.update(os.path.relpath(p, repo).encode())
        h.update(b"\0")
        with open(p, "rb") as fh:
            h.update(fh.read())
        h.update(b"\0")
    return h.hexdigest()[:16]


FLAGS = {
    "plain": ("RelWithDebInfo", "-DGWB_VERIF", False),
    "apps": ("RelWithDebInfo", "-DGWB_VERIF", True),
    "nohook": ("RelWithDebInfo", "", False),
    "asan": ("RelWithDebInfo", "-DGWB_VERIF -O1 -fsanitize=address,undefined -fno-sanitize-recover=all -fno-omit-frame-pointer", False),
    "tsan": ("RelWithDebInfo", "-DGWB_VERIF -O1 -fsanitize=thread -fno-omit-frame-pointer", False),
    # line coverage of the library under the checks' own sessions (tools/coverage.py): object directories are kept for the .gcno/.gcda files
    "cov": ("RelWithDebInfo", "-DGWB_VERIF -O0 --coverage", False),
}


def effective(variant):
    """tools/coverage.py runs the ordinary sessions against the instrumented library: VERIF_COVERAGE=1 maps the plain variant to cov"""
    return "cov" if variant in ("plain", "asan") and os.environ.get("VERIF_COVERAGE") == "1" else variant


def evict(keep_hash, keep=5):
    """Remove old builds of other tree hashes (disk is limited): keep the `keep` most recently used build directories."""
    if not os.path.isdir(CACHE):
        return
    ds = [d for d in os.listdir(CACHE) if d.startswith("build-") and not d.startswith("build-" + keep_hash)]
    ds.sort(key=lambda d: os.path.getmtime(os.path.join(CACHE, d)), reverse=True)
    for d in ds[keep:]:
        shutil.rmtree(os.path.join(CACHE, d), ignore_errors=True)


def build(variant="plain", repo=REPO, quiet=True):
    """Return the build directory (containing lib/libWorldBuilder.a, include/, bin/)."""
    variant = effective(variant)
    btype, extra, apps = FLAGS[variant]
    os.makedirs(CACHE, exist_ok=True)
    th = tree_hash(repo)
    bdir = os.path.join(CACHE, "build-%s-%s" % (th, variant))
    stamp = os.path.join(bdir, ".complete")
    lock = open(os.path.join(CACHE, "build.lock"), "w")
    fcntl.flock(lock, fcntl.LOCK_EX)
    try:
        if os.path.exists(stamp):
            os.utime(bdir, None)
            return bdir
        evict(th)
        if os.path.isdir(bdir):
            shutil.rmtree(bdir)
        os.makedirs(bdir)
        cfg = ["cmake", "-G", "Ninja", "-S", repo, "-B", bdir,
               "-DCMAKE_BUILD_TYPE=" + btype,
               "-DWB_ENABLE_TESTS=OFF", "-DWB_ENABLE_PYTHON=OFF", "-DWB_MAKE_FORTRAN_WRAPPER=OFF",
               "-DWB_UNITY_BUILD=OFF", "-DWB_ENABLE_HELPER_TARGETS=OFF",
               "-DWB_ENABLE_APPS=" + ("ON" if apps else "OFF"),
               "-DCMAKE_CXX_FLAGS=" + extra, "-DCMAKE_C_FLAGS=" + extra]
        if variant in ("asan", "tsan"):
            san = "-fsanitize=address,undefined" if variant == "asan" else "-fsanitize=thread"
            cfg += ["-DCMAKE_EXE_LINKER_FLAGS=" + san, "-DCMAKE_SHARED_LINKER_FLAGS=" + san]
        if variant == "cov":
            cfg += ["-DCMAKE_EXE_LINKER_FLAGS=--coverage", "-DCMAKE_SHARED_LINKER_FLAGS=--coverage"]
        t0 = time.time()
        log = open(os.path.join(bdir, "verif-build.log"), "w")
        r = subprocess.run(cfg, stdout=log, stderr=subprocess.STDOUT)
        if r.returncode != 0:
            raise RuntimeError("cmake configure failed, see %s" % log.name)
        r = subprocess.run(["cmake", "--build", bdir, "-j", str(os.cpu_count() or 8)], stdout=log, stderr=subprocess.STDOUT)
        if r.returncode != 0:
            raise RuntimeError("build failed, see %s" % log.name)
        log.close()
        # drop object files: only the archive, headers and binaries are needed afterwards
        if variant != "cov":
            shutil.rmtree(os.path.join(bdir, "CMakeFiles"), ignore_errors=True)
        open(stamp, "w").write("%.1f\n" % (time.time() - t0))
        if not quiet:
            print("built %s in %.1fs" % (bdir, time.time() - t0), file=sys.stderr)
        return bdir
    finally:
        fcntl.flock(lock, fcntl.LOCK_UN)
        lock.close()


def compile_harness(src, variant="plain", out_name=None, extra_flags=(), repo=REPO, lang="c++", extra_srcs=()):
    """Compile a harness source in /verif/harness against the library of the given variant."""
    variant = effective(variant)
    bdir = build(variant, repo)
    out_name = out_name or os.path.splitext(os.path.basename(src))[0]
    out = os.path.join(bdir, "harness-" + out_name)
    srcs = [src] + list(extra_srcs)
    deps = srcs + [os.path.join(VERIF, "harness", f) for f in os.listdir(os.path.join(VERIF, "harness")) if f.endswith(".h")]
    if os.path.exists(out) and all(os.path.getmtime(out) >= os.path.getmtime(s) for s in deps):
        return out
    flags = ["-std=c++14", "-O1", "-g", "-DGWB_VERIF", "-I" + os.path.join(repo, "include"), "-I" + os.path.join(bdir, "include"),
             "-I" + os.path.join(VERIF, "harness"), "-pthread"]
    if variant == "asan":
        flags += ["-fsanitize=address,undefined", "-fno-sanitize-recover=all", "-fno-omit-frame-pointer"]
    if variant == "tsan":
        flags += ["-fsanitize=thread"]
    if variant == "cov":
        flags += ["--coverage"]
    tmp = "%s.tmp%d" % (out, os.getpid())          # several checks may compile the same harness at once: private temporary, atomic move into place
    cmd = ["g++"] + flags + list(extra_flags) + srcs + ["-Wl,--whole-archive", os.path.join(bdir, "lib", "libWorldBuilder.a"),
                                                        "-Wl,--no-whole-archive", "-o", tmp]
    if os.path.exists("/usr/lib/x86_64-linux-gnu/libz.so") or True:
        cmd += ["-lz"] if variant == "apps" else []
    r = subprocess.run(cmd, stdout=subprocess.PIPE, stderr=subprocess.STDOUT, text=True)
    if r.returncode != 0:
        raise RuntimeError("harness compile failed:\n" + r.stdout[-4000:])
    os.replace(tmp, out)
    return out


if __name__ == "__main__":
    v = sys.argv[1] if len(sys.argv) > 1 else "plain"
    print(build(v, quiet=False))
