#!/usr/bin/env python3
"""Run the repository's pinned test suite on /repo's current working tree with the GWB_VERIF guard OFF.

Builds like the baseline (`cmake -G Ninja`, RelWithDebInfo, tests and apps on, no -DGWB_VERIF) into
/verif/.cache/baseline-<treehash>, runs `ctest -j8 --timeout 900`, and compares the set of passing tests with
`stable_pass` of /root/.vp/BASELINE.json.  Exit 0 iff every stable test passes.
"""
import json, os, re, shutil, subprocess, sys
HERE = os.path.dirname(os.path.abspath(__file__))
sys.path.insert(0, HERE)
import build_repo

REPO = build_repo.REPO


def main():
    th = build_repo.tree_hash(REPO)
    bdir = os.path.join(build_repo.CACHE, "baseline-%s" % th)
    os.makedirs(build_repo.CACHE, exist_ok=True)
    for d in os.listdir(build_repo.CACHE):
        if d.startswith("baseline-") and d != "baseline-" + th:
            shutil.rmtree(os.path.join(build_repo.CACHE, d), ignore_errors=True)
    if not os.path.exists(os.path.join(bdir, ".built")):
        shutil.rmtree(bdir, ignore_errors=True)
        os.makedirs(bdir)
        log = open(os.path.join(bdir, "verif-build.log"), "w")
        r = subprocess.run(["cmake", "-G", "Ninja", "-S", REPO, "-B", bdir, "-DCMAKE_BUILD_TYPE=RelWithDebInfo",
                            "-DWB_ENABLE_PYTHON=OFF", "-DWB_MAKE_FORTRAN_WRAPPER=OFF"], stdout=log, stderr=subprocess.STDOUT)
        if r.returncode != 0:
            print("configure failed, see", log.name)
            return 2
        r = subprocess.run(["cmake", "--build", bdir, "-j", str(os.cpu_count() or 8)], stdout=log, stderr=subprocess.STDOUT)
        if r.returncode != 0:
            print("build failed, see", log.name)
            return 2
        open(os.path.join(bdir, ".built"), "w").write("ok\n")
    # guard must be off in this build
    cc = open(os.path.join(bdir, "compile_commands.json")).read()
    assert "GWB_VERIF" not in cc, "guard unexpectedly on"
    r = subprocess.run(["ctest", "--test-dir", bdir, "-j8", "--timeout", "900"], stdout=subprocess.PIPE, stderr=subprocess.STDOUT, text=True)
    passed, failed = set(), set()
    for line in r.stdout.split("\n"):
        m = re.search(r"Test\s+#\d+:\s+(\S+)\s+\.+\s*(Passed|\*\*\*Failed|\*\*\*Exception|\*\*\*Timeout|Failed)", line)
        if m:
            (passed if m.group(2) == "Passed" else failed).add(m.group(1))
    base = json.load(open("/root/.vp/BASELINE.json"))
    stable = set(t.split("::")[0] for t in base["stable_pass"])
    missing = sorted(stable - passed)
    print("passed %d, failed %d; stable baseline %d; stable tests not passing: %s" % (len(passed), len(failed), len(stable), missing))
    return 0 if not missing else 1


if __name__ == "__main__":
    sys.exit(main())
